#!/bin/sh
# usage: tools/mkseedwt.sh <name>   -- scratch worktree /tmp/seed/<name> of /repo HEAD without the contract files
set -eu
d=/tmp/seed/$1
mkdir -p /tmp/seed
git -C /repo worktree add --detach "$d" HEAD >/dev/null 2>&1
cd "$d"
find . -name 'verif_contracts*.go' -delete
git -c user.name=builder -c user.email=b@x commit -qam "strip" || true
echo "$d"

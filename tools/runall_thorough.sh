#!/bin/sh
# run every claimed thorough check on the current tree (no evidence written); print id, exit code, summary
cd /verif
for id in $(python3 -c "import json;print(' '.join(c['property_id'] for c in json.load(open('MANIFEST.json'))['checks']))"); do
  out=$(./check $id --tier thorough --no-evidence 2>&1); rc=$?
  echo "$id exit=$rc $(echo "$out" | grep -E '^property' | tail -1)"
  [ $rc -ne 0 ] && echo "$out" | grep -E "VIOLATION|ERROR|KNOWN|failed obligation" | head -5
done

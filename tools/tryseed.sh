#!/bin/sh
# usage: tools/tryseed.sh <seed dir name> <property id>   -- apply, check, undo
set -u
d=/verif/seeded/$1; pid=$2
git -C /repo status --short | grep -q . && { echo "repo not clean"; exit 3; }
git -C /repo apply $d/patch.diff || exit 3
timeout 1100 /verif/check $pid --no-evidence --out /verif/out/seed_$1; rc=$?
git -C /repo checkout -- . ; git -C /repo clean -fdq
echo "seed $1 on $pid: exit=$rc"

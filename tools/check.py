#!/usr/bin/env python3
"""check <id> [--tier quick|thorough] [--replay <path>]

Driver for the contract-based checks: runs govc on the functions under contract
for one property (from /repo's current working tree), replays refutations on the
real code, consults known_findings.json, writes evidence/<id>.json.

exit 0: every obligation discharged (or only listed known findings failed)
exit 1: VIOLATION property=<id> replay=<path> [no-failing-input-found]
exit 2: ERROR (contract-stale, unsupported construct, vacuity guard) - undecided
"""
import argparse, json, os, re, subprocess, sys, time, importlib.util, shutil, glob, hashlib

VERIF = os.path.dirname(os.path.dirname(os.path.abspath(__file__)))
REPO = os.environ.get("VERIF_REPO", "/repo")
GOENV = dict(os.environ, GOFLAGS="-mod=mod", GOPROXY="off", GOSUMDB="off", GOTOOLCHAIN="local")
GOVC = os.path.join(VERIF, "bin", "govc")
EXTRA_OVERLAY = {}


def build_govc():
    src = glob.glob(os.path.join(VERIF, "govc", "*.go"))
    newest = max(os.path.getmtime(f) for f in src)
    if os.path.exists(GOVC) and os.path.getmtime(GOVC) >= newest:
        return
    os.makedirs(os.path.dirname(GOVC), exist_ok=True)
    r = subprocess.run(["go", "build", "-o", GOVC, "."], cwd=os.path.join(VERIF, "govc"), env=GOENV,
                       capture_output=True, text=True)
    if r.returncode != 0:
        print("ERROR building govc:\n" + r.stdout + r.stderr)
        sys.exit(2)


# ---------------------------------------------------------------- s-expressions
def parse_sexpr(s):
    toks = re.findall(r'\(|\)|\|[^|]*\||"[^"]*"|[^\s()]+', s)
    pos = 0

    def rd():
        nonlocal pos
        t = toks[pos]
        pos += 1
        if t == "(":
            out = []
            while toks[pos] != ")":
                out.append(rd())
            pos += 1
            return out
        return t
    out = []
    while pos < len(toks):
        out.append(rd())
    return out


def sval(v):
    """SMT value -> python"""
    if isinstance(v, list):
        if len(v) == 2 and v[0] == "-":
            x = sval(v[1])
            return -x if isinstance(x, (int, float)) else None
        if len(v) == 3 and v[0] == "/":
            try:
                return sval(v[1]) / sval(v[2])
            except Exception:
                return None
        if len(v) == 3 and v[0] == "_" and str(v[1]).startswith("bv"):
            return int(v[1][2:])
        return None
    if v == "true":
        return True
    if v == "false":
        return False
    if v.startswith("#x"):
        return int(v[2:], 16)
    if v.startswith("#b"):
        return int(v[2:], 2)
    try:
        return int(v)
    except ValueError:
        try:
            return float(v)
        except ValueError:
            return v


def model_values(model_text, probes):
    """pair get-value output with probe labels (same order)"""
    try:
        sx = parse_sexpr(model_text)
    except Exception:
        return {}
    if not sx or not isinstance(sx[0], list):
        return {}
    pairs = sx[0]
    vals = {}
    for p, pr in zip(probes, pairs):
        if isinstance(pr, list) and len(pr) == 2:
            vals[p["label"]] = sval(pr[1])
    return vals


def slice_bytes(vals, name):
    """reconstruct a []byte input from probe values (None if nil)"""
    if vals.get(name + ".nil") is True:
        return None
    n = vals.get(name + ".len")
    if not isinstance(n, int) or n < 0 or n > 1 << 16:
        return None  # models with huge slices are not replayed
    out = []
    for i in range(n):
        b = vals.get("%s[%d]" % (name, i))
        out.append(b if isinstance(b, int) else 0)
    return out


# ---------------------------------------------------------------- replay
def load_replay_module(pid):
    path = os.path.join(VERIF, "replay", pid + ".py")
    if not os.path.exists(path):
        return None
    spec = importlib.util.spec_from_file_location("replay_" + pid, path)
    m = importlib.util.module_from_spec(spec)
    spec.loader.exec_module(m)
    return m


def run_replay(pid, outdir, n, plan):
    """plan: dict(pkg=<dir rel to repo>, test=<go source>, mask=[files rel to pkg], tags=str)"""
    rdir = os.path.join(outdir, "replay", str(n))
    os.makedirs(rdir, exist_ok=True)
    pkgdir = os.path.join(REPO, plan["pkg"])
    test_path = os.path.join(rdir, "zz_verif_replay_test.go")
    with open(test_path, "w") as f:
        f.write(plan["test"])
    pkgname = plan.get("pkgname") or os.path.basename(plan["pkg"])
    empty = os.path.join(rdir, "empty_test.go")
    with open(empty, "w") as f:
        f.write("package %s\n" % pkgname)
    repl = {os.path.join(pkgdir, "zz_verif_replay_test.go"): test_path}
    masks = plan.get("mask")
    if masks is None:
        masks = []
    if plan.get("mask_all_tests", True):
        for tf in glob.glob(os.path.join(pkgdir, "*_test.go")):
            repl[tf] = empty
    for m in masks:
        repl[os.path.join(pkgdir, m)] = empty
    repl.update(EXTRA_OVERLAY)  # self-test mutants are replayed against the mutated sources
    ov = os.path.join(rdir, "overlay.json")
    with open(ov, "w") as f:
        json.dump({"Replace": repl}, f)
    cmd = ["go", "test", "-v", "-overlay", ov, "-vet=off", "-count=1", "-timeout", "60s", "-ldflags=-checklinkname=0"]
    if plan.get("tags"):
        cmd += ["-tags", plan["tags"]]
    if plan.get("race"):
        cmd += ["-race"]
    cmd += ["-run", "TestVerifReplay", "./" + plan["pkg"] + "/"]
    t0 = time.time()
    try:
        r = subprocess.run(cmd, cwd=REPO, env=GOENV, capture_output=True, text=True, timeout=240)
        out = r.stdout + r.stderr
    except subprocess.TimeoutExpired as e:
        out = "TIMEOUT\n" + (e.stdout or "") + (e.stderr or "")
    marks = ["REPLAY-CONFIRMED"] + list(plan.get("confirm_on") or [])  # e.g. the race detector's report
    return {"cmd": " ".join(cmd), "output": out[-6000:], "confirmed": any(m in out for m in marks), "marks": marks,
            "seconds": round(time.time() - t0, 2), "test_file": test_path}


def run_group(cmd, timeout):
    """run cmd in its own process group; on timeout kill the whole group (solver children too)"""
    import signal
    p = subprocess.Popen(cmd, env=GOENV, stdout=subprocess.DEVNULL, stderr=subprocess.DEVNULL, start_new_session=True)
    try:
        p.wait(timeout=timeout)
        return True
    except subprocess.TimeoutExpired:
        try:
            os.killpg(p.pid, signal.SIGKILL)
        except ProcessLookupError:
            pass
        p.wait()
        return False


# ---------------------------------------------------------------- main
def base_name(name):
    return name.split("@")[0]


def main():
    ap = argparse.ArgumentParser()
    ap.add_argument("pid")
    ap.add_argument("--tier", default=os.environ.get("VERIF_TIER", "quick"))
    ap.add_argument("--replay")
    ap.add_argument("--overlay", help="JSON {repo file: replacement} applied to the govc load (self-test)")
    ap.add_argument("--out")
    ap.add_argument("--no-evidence", action="store_true")
    args = ap.parse_args()
    pid = args.pid
    t0 = time.time()
    seed = int(os.environ.get("VERIF_SEED", "0") or 0)
    props = json.load(open(os.path.join(VERIF, "props.json")))
    if pid not in props:
        print("ERROR: unknown property", pid)
        return 2
    cfg = props[pid]
    if args.replay:
        # re-run a recorded replay
        rec = json.load(open(args.replay))
        rp = rec.get("replay") or {}
        if not rp.get("cmd"):
            print("no replay command recorded in", args.replay)
            return 2
        r = subprocess.run(rp["cmd"].split(), cwd=REPO, env=GOENV, capture_output=True, text=True)
        print(r.stdout + r.stderr)
        return 1 if any(m in (r.stdout + r.stderr) for m in (rp.get("marks") or ["REPLAY-CONFIRMED"])) else 0

    build_govc()
    if args.overlay:
        EXTRA_OVERLAY.update(json.load(open(args.overlay)))
        args.no_evidence = True  # a self-test run on mutated sources never overwrites the evidence of the real tree
    outdir = args.out or os.path.join(VERIF, "out", pid)
    shutil.rmtree(outdir, ignore_errors=True)
    os.makedirs(outdir, exist_ok=True)
    # per-VC solver limits: on the unchanged tree every obligation is decided in
    # < 5 s, so the quick limit leaves a 4x margin for a loaded machine; cover
    # (vacuity) queries that stay inconclusive are not alarms and get less
    timeout = 20 if args.tier == "quick" else 60
    cover_timeout = 8 if args.tier == "quick" else 30
    res_json = os.path.join(outdir, "result.json")
    cmd = [GOVC, "verify", "-repo", REPO, "-pkgs", ",".join(cfg["pkgs"]), "-prop", pid, "-tier", args.tier,
           "-out", os.path.join(outdir, "vc"), "-json", res_json, "-timeout", str(timeout),
           "-cover-timeout", str(cover_timeout), "-assumed", os.path.join(VERIF, "contracts", "assumed"), "-workers", "8"]
    if args.overlay:
        cmd += ["-overlay", args.overlay]
    import signal
    logp = os.path.join(outdir, "govc.log")
    with open(logp, "w") as lf:
        pr = subprocess.Popen(cmd, env=GOENV, stdout=lf, stderr=subprocess.STDOUT, start_new_session=True)
        try:
            pr.wait(timeout=900 if args.tier == "quick" else 3600)
        except subprocess.TimeoutExpired:
            try:
                os.killpg(pr.pid, signal.SIGKILL)
            except ProcessLookupError:
                pass
            pr.wait()
    log = open(logp).read()
    if not os.path.exists(res_json):
        print(log[-3000:])
        print("ERROR: govc produced no result (exit %s)" % pr.returncode)
        write_error_evidence(pid, args, seed, t0, "govc failed: " + log[-500:])
        return 2
    res = json.load(open(res_json))

    known = json.load(open(os.path.join(VERIF, "known_findings.json")))["findings"]
    known_here = [k for k in known if k["property"] == pid and k["status"] == "known"]

    units = res["units"]
    errors = [(u["unit"], u["error"]) for u in units if u.get("error")]
    vacuous = [(u["unit"], u["vacuous"]) for u in units if u.get("vacuous")]
    n_obl = n_dis = 0
    bounded_stats = {"obligations": 0, "held": 0, "units": [u["unit"] for u in units if u.get("bounded_run")],
                     "note": "bounded stand-ins (loops fully unrolled under the contract's bounding assumptions); not counted in obligations/discharged"}
    failing = {}  # base -> list of (unit, obl)
    by_solver = {}
    samples = []
    solver_s = 0.0
    for u in units:
        for o in u.get("obligations") or []:
            if o.get("cover"):
                continue
            solver_s += o.get("seconds", 0)
            if u.get("bounded_run"):
                # bounded stand-in: reported separately, never counted as proved
                bounded_stats["obligations"] += 1
                if o["status"] in ("discharged", "trivial"):
                    bounded_stats["held"] += 1
                else:
                    failing.setdefault(base_name(o["name"]), []).append((u, o))
                continue
            n_obl += 1
            if o["status"] in ("discharged", "trivial"):
                n_dis += 1
                s = o.get("solver") or "syntactic"
                if o["status"] == "trivial":
                    s = "syntactic"
                by_solver[s] = by_solver.get(s, 0) + 1
                if len(samples) < 3 and o["status"] == "discharged":
                    samples.append({"obligation": o["name"], "result": "unsat (discharged) by " + s,
                                    "smt_bytes": o.get("smt_bytes"), "seconds": round(o.get("seconds", 0), 3)})
            else:
                failing.setdefault(base_name(o["name"]), []).append((u, o))

    violations = []
    known_lines = []
    mod = load_replay_module(cfg.get("replay", pid))
    nrep = 0
    for base, items in sorted(failing.items()):
        kf = [k for k in known_here if k["obligation"] == base]
        if kf:
            known_lines.append("KNOWN-FINDING: property=%s %s: %s" % (pid, base, kf[0]["what"]))
            continue
        # try to replay the first refutation that carries a model
        rec = {"property": pid, "obligation": base, "instances": [o["name"] for _, o in items],
               "statuses": sorted(set(o["status"] for _, o in items)), "pos": items[0][1].get("pos")}
        confirmed = False
        for u, o in items:
            # refuted: the solver's model; undischarged: a candidate model if one was printed
            vals = model_values(o.get("model") or "", u.get("probes") or [])
            rec.setdefault("solver_output", (o.get("model") or o.get("output") or "")[:4000])
            rec.setdefault("vc_file", o.get("file"))
            plan = None
            if mod is not None:
                try:
                    plan = mod.build(u["unit"], o, vals)
                except Exception as e:  # replay template cannot use this model
                    rec["replay_error"] = repr(e)
            if plan is None:
                continue
            nrep += 1
            rp = run_replay(pid, outdir, nrep, plan)
            rec["replay"] = rp
            rec["inputs"] = {k: v for k, v in vals.items() if not re.search(r"\[\d+\]$", k)}
            if rp["confirmed"]:
                confirmed = True
                break
            if nrep >= 6:
                break
        rec["confirmed"] = confirmed
        # keep a copy of the VC next to the record (out/ is cleaned on every run)
        path = os.path.join(outdir, "violation_%s.json" % hashlib.sha1(base.encode()).hexdigest()[:10])
        with open(path, "w") as f:
            json.dump(rec, f, indent=1)
        violations.append((base, path, confirmed))

    # ---- bounded fallback for units whose contracts no longer bind (renamed
    # locals, restructured loops) or that hit an unsupported construct: search
    # for a failing input with every loop unrolled; ONLY a refutation that
    # replays on the real code is reported (this pass never proves anything).
    stale_units = [u["unit"] for u in units if u.get("error")]
    bounded_info = []
    for bound in (cfg.get("bounds") or [1, 2, 4]):
        if not (stale_units and mod is not None) or any(v[2] for v in violations):
            break
        bjson = os.path.join(outdir, "bounded_%d.json" % bound)
        bcmd = [GOVC, "verify", "-repo", REPO, "-pkgs", ",".join(cfg["pkgs"]), "-units", ",".join(stale_units),
                "-out", os.path.join(outdir, "vc_bounded"), "-json", bjson, "-timeout", "5",
                "-assumed", os.path.join(VERIF, "contracts", "assumed"), "-workers", "5", "-bounded", str(bound)]
        if args.overlay:
            bcmd += ["-overlay", args.overlay]
        if not run_group(bcmd, 150):
            break
        if os.path.exists(bjson):
            bres = json.load(open(bjson))
            for u in bres["units"]:
                groups = {}
                for o in u.get("obligations") or []:
                    if not o.get("cover") and o["status"] == "refuted":
                        groups.setdefault(base_name(o["name"]), []).append(o)
                bounded_info.append({"unit": u["unit"], "error": u.get("error"), "refuted_groups": sorted(groups)})
                for base, obs in sorted(groups.items()):
                    if [k for k in known_here if k["obligation"] == base]:
                        continue
                    rec = {"property": pid, "obligation": base + " (bounded search, loops unrolled <= %d)" % bound,
                           "reason": "contracts of %s no longer bind to the code: %s" % (u["unit"], dict(errors).get(u["unit"], ""))}
                    done = False
                    for o in obs[:12]:
                        if nrep >= 60:
                            break
                        vals = model_values(o.get("model") or "", u.get("probes") or [])
                        try:
                            plan = mod.build(u["unit"], o, vals)
                        except Exception as e:
                            plan = None
                            rec["replay_error"] = repr(e)
                        if plan is None:
                            continue
                        nrep += 1
                        rp = run_replay(pid, outdir, nrep, plan)
                        if rp["confirmed"]:
                            rec["replay"] = rp
                            rec["inputs"] = {k: v for k, v in vals.items() if not re.search(r"\[\d+\]$", k)}
                            rec["solver_output"] = (o.get("model") or "")[:4000]
                            rec["confirmed"] = True
                            path = os.path.join(outdir, "violation_%s.json" % hashlib.sha1((base + "b").encode()).hexdigest()[:10])
                            with open(path, "w") as f:
                                json.dump(rec, f, indent=1)
                            violations.append((rec["obligation"], path, True))
                            done = True
                            break
                    if done:
                        break

    # ---- thorough tier: the replay batteries are also run when no obligation failed.  This is
    # testing, not proof (reported separately, never counted as discharged): a battery that is
    # loud although every obligation holds means the contracts do not cover the behaviour it
    # exercises.  A loud battery is run a second time before it counts (no flake may alarm).
    battery_info = {"ran": 0, "loud": 0, "note": "replay batteries run unconditionally in the thorough tier: bounded testing of the real code, not part of the proof"}
    if args.tier == "thorough" and not violations and not errors and mod is not None:
        try:
            plans = mod.all_plans() if hasattr(mod, "all_plans") else [mod.build("", {}, {})]
        except Exception as e:
            plans = []
            battery_info["error"] = repr(e)
        for i, plan in enumerate(plans):
            if plan is None:
                continue
            battery_info["ran"] += 1
            rp = run_replay(pid, outdir, 1000 + i, plan)
            if rp["confirmed"]:
                rp2 = run_replay(pid, outdir, 2000 + i, plan)
                if rp2["confirmed"]:
                    battery_info["loud"] += 1
                    base = "replay-battery:%s" % plan.get("pkg", "")
                    rec = {"property": pid, "obligation": base, "instances": [], "statuses": ["no obligation failed; the battery reproduces a violation on the real code twice in a row"],
                           "replay": rp2, "confirmed": True}
                    path = os.path.join(outdir, "violation_%s.json" % hashlib.sha1(base.encode()).hexdigest()[:10])
                    with open(path, "w") as f:
                        json.dump(rec, f, indent=1)
                    violations.append((base, path, True))

    wall = time.time() - t0
    # ---- evidence
    funcs = [u["unit"] for u in units]
    ev = {
        "property_id": pid, "tier": args.tier if args.tier in ("quick", "thorough") else "quick", "seed": seed, "level": "proof",
        "coverage": {
            "obligations": n_obl, "discharged": n_dis,
            "checker_cmd": " ".join(cmd),
            "trusted_base": cfg.get("trusted_base", []) + ["govc symbolic semantics of the Go subset (go/ssa naive form)", "z3 4.8.12 / z3 5.1.0 / cvc5 1.0 (portfolio, first definitive answer)"],
            "functions_under_contract": funcs,
            "by_backend": by_solver,
            "solver_seconds": round(solver_s, 2),
            "samples": samples,
            "abstracted": sorted(set(n for u in units for n in (u.get("abstracted") or []))),
            "unmodelled_calls": sorted(set(n for u in units for n in (u.get("unmodelled_calls") or []))),
            "pure_calls_havocked_results": sorted(set(n for u in units for n in (u.get("pure_calls") or []))),
            "assumed_contracts": sorted(set(n for u in units for n in (u.get("assumed_contracts") or []))),
            "callee_contracts_used": sorted(set(n for u in units for n in (u.get("callee_contracts") or []))),
            "inlined": sorted(set(n for u in units for n in (u.get("inlined") or []))),
            "frame_checked_units": [u["unit"] for u in units if u.get("frame_checked")],
            "paths": sum(u.get("paths", 0) for u in units),
            "pruned_infeasible_paths": sum(u.get("pruned_paths", 0) for u in units),
            "vacuity": {"cover_queries": sum(1 for u in units for o in (u.get("obligations") or []) if o.get("cover")),
                        "cover_sat": sum(1 for u in units for o in (u.get("obligations") or []) if o.get("status") == "cover-ok"),
                        "vacuous_units": vacuous},
            "bounded": cfg.get("bounded", []) + ([bounded_stats] if bounded_stats["obligations"] else []),
            "bounded_fallback": bounded_info,
            "replay_batteries": battery_info,
            "known_findings": known_lines,
            "errors": errors,
            "explanation": cfg.get("explanation", ""),
            "load_s": res.get("load_s"), "gen_s": res.get("gen_s"), "solve_s": res.get("solve_s"),
        },
        "assumptions": cfg.get("assumptions", []),
        "wall_s": round(wall, 2),
        "violations": len(violations),
    }
    if not args.no_evidence:
        os.makedirs(os.path.join(VERIF, "evidence"), exist_ok=True)
        with open(os.path.join(VERIF, "evidence", pid + ".json"), "w") as f:
            json.dump(ev, f, indent=1)

    for l in known_lines:
        print(l)
    print("property %s tier %s: %d/%d obligations discharged over %d functions, %d failing obligation groups, %.1fs" %
          (pid, args.tier, n_dis, n_obl, len(funcs), len(failing), wall))
    if violations:
        for base, path, confirmed in violations:
            print("  failed obligation: %s (%s)" % (base, "replay confirmed on the real code" if confirmed else "no failing input reproduced"))
            print("VIOLATION property=%s replay=%s%s" % (pid, path, "" if confirmed else " no-failing-input-found"))
        return 1
    if errors or vacuous:
        for u, e in errors:
            print("ERROR %s: %s" % (u, e))
        for u, v in vacuous:
            print("ERROR %s: vacuous %s" % (u, v))
        return 2
    return 0


def write_error_evidence(pid, args, seed, t0, msg):
    ev = {"property_id": pid, "tier": args.tier, "seed": seed, "level": "proof",
          "coverage": {"obligations": 0, "discharged": 0, "checker_cmd": "govc", "trusted_base": [], "explanation": msg,
                       "evaluations": 1, "distinct_nontrivial": 0},
          "wall_s": round(time.time() - t0, 2), "violations": 0}
    os.makedirs(os.path.join(VERIF, "evidence"), exist_ok=True)
    with open(os.path.join(VERIF, "evidence", pid + ".json"), "w") as f:
        json.dump(ev, f, indent=1)


if __name__ == "__main__":
    sys.exit(main())

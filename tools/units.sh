#!/bin/sh
# usage: tools/units.sh <pkgs> <timeout-s> <unit> [<unit>...]  -- run units separately in parallel, summarise
pk=$1; to=$2; shift 2
export GOFLAGS=-mod=mod GOPROXY=off GOSUMDB=off GOTOOLCHAIN=local
i=0
for u in "$@"; do
  i=$((i+1))
  ( timeout $to /verif/bin/govc verify -repo /repo -pkgs "$pk" -units "$u" -out /verif/out/u_$i -json /verif/out/u_$i.json -timeout 10 -v 2>&1 | grep -E "FAIL|UNIT|ERROR|error|stale|unsupported" | head -${MAXL:-25}; echo "== done($?) $u" ) &
done
wait

#!/usr/bin/env python3
"""keepseed.py <agent worktree name under /tmp/seed> <seed dir name> <property id> <demo dest rel path> -- <go test args for the demo>

Confirms an independently written breaking change in a fresh scratch worktree of /repo HEAD:
 demo passes without the patch, fails with it; tests of the touched packages that passed before still pass.
On success stores /verif/seeded/<seed dir name>/{patch.diff, demo file, meta.json}.  Removes the scratch worktree."""
import json, os, re, shutil, subprocess, sys

ENV = dict(os.environ, GOFLAGS="-mod=mod", GOPROXY="off", GOSUMDB="off", GOTOOLCHAIN="local")


def sh(cmd, cwd, timeout=1500):
    r = subprocess.run(cmd, cwd=cwd, env=ENV, capture_output=True, text=True, timeout=timeout)
    return r.returncode, r.stdout + r.stderr


def passing(wt, pkgs, tags):
    ok = set()
    for p in pkgs:
        cmd = ["go", "test", "-json", "-count=1", "-vet=off", "-ldflags=-checklinkname=0", "-timeout", "600s"]
        if tags:
            cmd += ["-tags", tags]
        cmd.append("./" + p + "/")
        _, out = sh(cmd, wt)
        for l in out.splitlines():
            try:
                e = json.loads(l)
            except Exception:
                continue
            if e.get("Action") == "pass" and e.get("Test"):
                ok.add(p + ":" + e["Test"])
    return ok


def main():
    i = sys.argv.index("--")
    name, sdir, pid, dest = sys.argv[1:5]
    opts = sys.argv[5:i]
    tags = ""
    if "--tags" in opts:
        tags = opts[opts.index("--tags") + 1]
    demo_args = sys.argv[i + 1:]
    src = "/tmp/seed/%s/_seed" % name
    patch = os.path.join(src, "patch.diff")
    demo = [f for f in os.listdir(src) if f.endswith(".go")]
    assert len(demo) == 1, demo
    wt = "/tmp/seedv/" + name
    shutil.rmtree(wt, ignore_errors=True)
    os.makedirs("/tmp/seedv", exist_ok=True)
    subprocess.run(["git", "-C", "/repo", "worktree", "prune"])
    assert subprocess.run(["git", "-C", "/repo", "worktree", "add", "--detach", wt, "HEAD"], capture_output=True).returncode == 0
    try:
        touched = sorted(set(os.path.dirname(m) for m in re.findall(r"^\+\+\+ b/(\S+)", open(patch).read(), re.M)))
        before = passing(wt, touched, tags)
        # stale test files of the package that do not compile: moved aside in the scratch worktree
        if "--aside" in opts:
            for a in opts[opts.index("--aside") + 1].split(","):
                if os.path.exists(os.path.join(wt, a)):
                    os.rename(os.path.join(wt, a), os.path.join(wt, a + ".aside"))
        os.makedirs(os.path.dirname(os.path.join(wt, dest)), exist_ok=True)
        shutil.copy(os.path.join(src, demo[0]), os.path.join(wt, dest))
        rc0, out0 = sh(["go", "test"] + demo_args, wt)
        rc, o = sh(["git", "apply", patch], wt)
        assert rc == 0, "patch does not apply: " + o
        rc1, out1 = sh(["go", "test"] + demo_args, wt)
        os.remove(os.path.join(wt, dest))
        rcb, outb = sh(["go", "build"] + (["-tags", tags] if tags else []) + ["./" + p + "/" for p in touched], wt)
        after = passing(wt, touched, tags)
        lost = sorted(before - after)
        ok = rc0 == 0 and rc1 != 0 and rcb == 0 and not lost and "build failed" not in out1 and "[setup failed]" not in out1
        print("demo without patch: rc=%d; with patch: rc=%d; build rc=%d; tests passing before=%d after=%d lost=%s" % (rc0, rc1, rcb, len(before), len(after), lost))
        if not ok:
            print(out0[-1500:])
            print(out1[-1500:])
            print(outb[-500:])
            return 1
        d = "/verif/seeded/" + sdir
        os.makedirs(d, exist_ok=True)
        shutil.copy(patch, os.path.join(d, "patch.diff"))
        shutil.copy(os.path.join(src, demo[0]), os.path.join(d, demo[0]))
        notes = open(os.path.join(src, "notes.md")).read() if os.path.exists(os.path.join(src, "notes.md")) else ""
        meta = {"property": pid, "origin": "independent sub-agent given only the property text and a scratch worktree",
                "needs_to_manifest": "see notes", "demo_placement": dest, "demo_cmd": "go test " + " ".join(demo_args),
                "confirmed": {"demo_without_patch": "pass", "demo_with_patch": "fail (rc %d)" % rc1,
                              "touched_packages": touched, "existing_tests_passing_before": len(before), "lost_after_patch": lost,
                              "demo_failure_tail": out1[-600:]},
                "notes": notes[:3000]}
        json.dump(meta, open(os.path.join(d, "meta.json"), "w"), indent=1)
        print("kept", d)
        return 0
    finally:
        subprocess.run(["git", "-C", "/repo", "worktree", "remove", "--force", wt], capture_output=True)
        shutil.rmtree(wt, ignore_errors=True)


if __name__ == "__main__":
    sys.exit(main())

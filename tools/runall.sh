#!/bin/sh
# run every claimed quick check on the current tree; print id, exit code, summary
cd /verif
for id in $(python3 -c "import json;print(' '.join(c['property_id'] for c in json.load(open('MANIFEST.json'))['checks']))"); do
  out=$(./check $id --tier quick 2>&1); rc=$?
  echo "$id exit=$rc $(echo "$out" | grep -E '^property' | tail -1)"
  [ $rc -ne 0 ] && echo "$out" | grep -E "VIOLATION|ERROR|KNOWN" | head -5
done

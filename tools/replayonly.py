#!/usr/bin/env python3
"""usage: tools/replayonly.py <pid> [unit [obligation]] -- run the replay battery of a property
against /repo's working tree without any failed obligation (used to confirm that a battery is
quiet on a repaired tree and loud on the tree before the repair)."""
import os, sys, tempfile, shutil
sys.path.insert(0, os.path.dirname(os.path.abspath(__file__)))
import check

pid = sys.argv[1]
unit = sys.argv[2] if len(sys.argv) > 2 else ""
obl = sys.argv[3] if len(sys.argv) > 3 else ""
if os.environ.get("VERIF_REPLAY_OVERLAY"):  # {repo file: replacement}, as check --overlay
    import json
    check.EXTRA_OVERLAY.update(json.load(open(os.environ["VERIF_REPLAY_OVERLAY"])))
mod = check.load_replay_module(pid)
plan = mod.build(unit, obl, {})
out = tempfile.mkdtemp(prefix="replayonly_", dir=os.path.join(check.VERIF, "out"))
try:
    r = check.run_replay(pid, out, 1, plan)
    print(r["output"][-3000:])
    print("confirmed" if r["confirmed"] else "quiet", "%.1fs" % r["seconds"])
finally:
    shutil.rmtree(out, ignore_errors=True)
sys.exit(1 if r["confirmed"] else 0)

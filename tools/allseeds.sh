#!/bin/sh
# run every kept seeded change against its property's check; print one line each
cd /verif
for d in seeded/*/; do
  n=$(basename $d); pid=$(python3 -c "import json;m=json.load(open('$d/meta.json'));print(m.get('checked_under',m['property']).split()[0])")
  out=$(timeout 1200 tools/tryseed.sh $n $pid 2>&1); echo "$n $pid: $(echo "$out" | grep -c '^VIOLATION') violation line(s); $(echo "$out" | tail -1)"
done

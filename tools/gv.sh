#!/bin/sh
# usage: tools/gv.sh <prop> <pkgs> [timeout]  -- one govc run, failures and unit summaries only
export GOFLAGS=-mod=mod GOPROXY=off GOSUMDB=off GOTOOLCHAIN=local
timeout ${3:-600} /verif/bin/govc verify -repo /repo -pkgs "$2" -prop "$1" -out /verif/out/gv_$1 -json /verif/out/gv_$1.json -timeout 10 -assumed /verif/contracts/assumed -v 2>&1 | grep -E "FAIL|UNIT|ERROR|error|stale|unsupported" | cut -c1-${W:-170} | head -${MAXL:-40}

"""Replay for C32: the real accounting.Accounting over a stub settlement layer.
(1) sequential reference check of Credit / NotifyPayment / Debit / Reserve against the
arithmetic of the statement; (2) two concurrent Debits with the served traffic just below
the tolerance and a rendezvous inside TransferTraffic (a forced schedule); (3) concurrent
Reserve / Credit / NotifyPayment under the race detector (go test -race): a reported data
race confirms the lock-discipline obligation."""

TEST = '''package accounting

import (
	"context"
	"io"
	"math/big"
	"sync"
	"testing"
	"time"

	"github.com/gauss-project/aurorafs/pkg/boson"
	"github.com/gauss-project/aurorafs/pkg/logging"
	"github.com/gauss-project/aurorafs/pkg/settlement"
	"github.com/gauss-project/aurorafs/pkg/statestore/mock"
)

type verifSettle struct {
	mu        sync.Mutex
	served    *big.Int
	available *big.Int
	puts      int
	pays      int
	entered   int
	meet      chan struct{}
	rendezvous bool
	meetFirst bool
	lookups   int
	meet1     chan struct{}
}

func (s *verifSettle) Pay(context.Context, boson.Address, *big.Int) error { s.mu.Lock(); s.pays++; s.mu.Unlock(); return nil }
func (s *verifSettle) TransferTraffic(boson.Address) (*big.Int, error) {
	s.mu.Lock()
	v := new(big.Int).Set(s.served)
	s.entered++
	if s.rendezvous && s.entered == 2 { close(s.meet) }
	rv := s.rendezvous
	s.mu.Unlock()
	if rv {
		select {
		case <-s.meet:
		case <-time.After(300 * time.Millisecond):
		}
	}
	return v, nil
}
func (s *verifSettle) RetrieveTraffic(boson.Address) (*big.Int, error) {
	// first contact: with meetFirst set, the look-up of the start value waits (up to 300 ms) for a
	// second look-up for the same peer - which can only arrive if the table lock is not held
	s.mu.Lock()
	s.lookups++
	mf := s.meetFirst
	if mf && s.lookups == 2 { close(s.meet1) }
	s.mu.Unlock()
	if mf {
		select {
		case <-s.meet1:
		case <-time.After(300 * time.Millisecond):
		}
	}
	return big.NewInt(0), nil
}
func (s *verifSettle) PutRetrieveTraffic(boson.Address, *big.Int) error { return nil }
func (s *verifSettle) PutTransferTraffic(_ boson.Address, t *big.Int) error {
	s.mu.Lock(); s.served = new(big.Int).Add(s.served, t); s.puts++; s.mu.Unlock(); return nil
}
func (s *verifSettle) AvailableBalance() (*big.Int, error) { s.mu.Lock(); defer s.mu.Unlock(); return new(big.Int).Set(s.available), nil }
func (s *verifSettle) SetNotifyPaymentFunc(settlement.NotifyPaymentFunc) {}
func (s *verifSettle) GetPeerBalance(boson.Address) (*big.Int, error) { return big.NewInt(0), nil }
func (s *verifSettle) GetUnPaidBalance(boson.Address) (*big.Int, error) { return big.NewInt(0), nil }

func verifUnpaid(a *Accounting, p boson.Address) *big.Int {
	r, _ := a.getAccountingPeer(p)
	r.lock.Lock(); defer r.lock.Unlock()
	return new(big.Int).Set(r.unPaidTraffic)
}

func TestVerifReplay(t *testing.T) {
	peer := boson.MustParseHexAddress("aa00000000000000000000000000000000000000000000000000000000000000")
	lg := logging.New(io.Discard, 0)
	// ---- (1) sequential reference
	{
		st := &verifSettle{served: big.NewInt(0), available: big.NewInt(1000)}
		a := NewAccounting(big.NewInt(1000), big.NewInt(100), lg, mock.NewStateStore(), st)
		ref := int64(0)
		wantPays := 0
		ops := []struct{ kind string; n int64 }{{"c", 40}, {"n", 10}, {"c", 59}, {"c", 11}, {"n", 500}, {"n", 5}, {"c", 100}, {"c", 1}, {"n", 101}, {"c", 7}}
		for i, op := range ops {
			switch op.kind {
			case "c":
				if err := a.Credit(context.Background(), peer, uint64(op.n)); err != nil { t.Logf("not reproduced: %v", err); return }
				ref += op.n
				if ref >= 100 { wantPays++ }
			case "n":
				if err := a.NotifyPayment(peer, big.NewInt(op.n)); err != nil { t.Logf("not reproduced: %v", err); return }
				if ref > 0 { ref -= op.n; if ref < 0 { ref = 0 } }
			}
			got := verifUnpaid(a, peer)
			if got.Cmp(big.NewInt(ref)) != 0 || got.Sign() < 0 {
				t.Logf("REPLAY-CONFIRMED after op %d (%s %d) the unpaid balance is %v, credits minus notified payments (clamped at 0) is %d", i, op.kind, op.n, got, ref); return
			}
		}
		time.Sleep(100 * time.Millisecond)
		st.mu.Lock(); pays := st.pays; st.mu.Unlock()
		if pays != wantPays {
			t.Logf("REPLAY-CONFIRMED %d payments requested, %d credits left the unpaid balance at or above the threshold", pays, wantPays); return
		}
		// reserve: refused exactly when available < unpaid + amount
		for _, c := range []struct{ avail, amount int64 }{{1000, 1}, {ref + 5, 5}, {ref + 4, 5}, {0, 1}} {
			st.mu.Lock(); st.available = big.NewInt(c.avail); st.mu.Unlock()
			err := a.Reserve(peer, uint64(c.amount))
			if (err == nil) != (c.avail >= ref+c.amount) {
				t.Logf("REPLAY-CONFIRMED Reserve(%d) with unpaid %d and available %d answered %v", c.amount, ref, c.avail, err); return
			}
		}
		// debit: refused and not recorded at the tolerance
		st.mu.Lock(); st.served = big.NewInt(1000); st.puts = 0; st.mu.Unlock()
		if err := a.Debit(peer, 1); err == nil || st.puts != 0 {
			t.Logf("REPLAY-CONFIRMED Debit with served traffic at the tolerance: err=%v, recorded %d times", err, st.puts); return
		}
		st.mu.Lock(); st.served = big.NewInt(999); st.mu.Unlock()
		if err := a.Debit(peer, 1); err != nil || st.puts != 1 {
			t.Logf("REPLAY-CONFIRMED Debit below the tolerance: err=%v, recorded %d times", err, st.puts); return
		}
	}
	// ---- (2) two concurrent Debits just below the tolerance, rendezvous in TransferTraffic
	{
		st := &verifSettle{served: big.NewInt(999), available: big.NewInt(1000), rendezvous: true, meet: make(chan struct{})}
		a := NewAccounting(big.NewInt(1000), big.NewInt(100), lg, mock.NewStateStore(), st)
		var wg sync.WaitGroup
		errs := make([]error, 2)
		for i := 0; i < 2; i++ {
			wg.Add(1)
			go func(i int) { defer wg.Done(); errs[i] = a.Debit(peer, 1) }(i)
		}
		wg.Wait()
		acc := 0
		for _, e := range errs { if e == nil { acc++ } }
		if acc == 2 || st.puts == 2 {
			t.Logf("REPLAY-CONFIRMED two concurrent Debits with served=999, tolerance=1000: accepted=%d recorded=%d served=%v (the second request was neither refused nor left unrecorded)", acc, st.puts, st.served); return
		}
	}
	// ---- (3) concurrent operations under the race detector
	{
		st := &verifSettle{served: big.NewInt(0), available: big.NewInt(1 << 40)}
		a := NewAccounting(big.NewInt(1 << 40), big.NewInt(1 << 40), lg, mock.NewStateStore(), st)
		var wg sync.WaitGroup
		for g := 0; g < 2; g++ {
			wg.Add(3)
			go func() { defer wg.Done(); for i := 0; i < 300; i++ { _ = a.Credit(context.Background(), peer, 1) } }()
			go func() { defer wg.Done(); for i := 0; i < 300; i++ { _ = a.Reserve(peer, 1) } }()
			go func() { defer wg.Done(); for i := 0; i < 300; i++ { _ = a.NotifyPayment(peer, big.NewInt(1)) } }()
		}
		wg.Wait()
	}
	// ---- (4) two first contacts of one peer at the same time: both credits must land in one record
	{
		st := &verifSettle{served: big.NewInt(0), available: big.NewInt(1 << 40), meetFirst: true, meet1: make(chan struct{})}
		a := NewAccounting(big.NewInt(1 << 40), big.NewInt(1 << 40), lg, mock.NewStateStore(), st)
		var wg sync.WaitGroup
		for _, c := range []uint64{6000, 4000} {
			c := c
			wg.Add(1)
			go func() { defer wg.Done(); _ = a.Credit(context.Background(), peer, c) }()
		}
		wg.Wait()
		if got := verifUnpaid(a, peer); got.Cmp(big.NewInt(10000)) != 0 {
			t.Logf("REPLAY-CONFIRMED two concurrent first-contact credits of 6000 and 4000 for one peer: the unpaid balance is %v (the start value was looked up %d times: two records were created and one credit was lost)", got, st.lookups); return
		}
	}
	t.Logf("not reproduced")
}
'''


def build(unit, obl, vals):
    return {"pkg": "pkg/accounting", "test": TEST, "race": True, "confirm_on": ["WARNING: DATA RACE"]}

"""Replay for C04: the real cac.New / NewWithDataSpan / Valid against an
independent reference (BMT hasher driven directly) over boundary lengths and
single-byte mutations of payload and address."""

TEST = '''package cac

import (
	"bytes"
	"encoding/binary"
	"testing"

	"github.com/gauss-project/aurorafs/pkg/bmtpool"
	"github.com/gauss-project/aurorafs/pkg/boson"
)

func verifRefHash(payload []byte) []byte {
	h := bmtpool.Get()
	defer bmtpool.Put(h)
	h.SetHeader(payload[:8])
	_, _ = h.Write(payload[8:])
	s, _ := h.Hash(nil)
	return s
}

func verifRefValid(addr, payload []byte) bool {
	if len(payload) < 8 || len(payload) > boson.ChunkSize+8 { return false }
	return bytes.Equal(verifRefHash(payload), addr)
}

func TestVerifReplay(t *testing.T) {
	mkdata := func(n int) []byte { d := make([]byte, n); for i := range d { d[i] = byte(i*7 + 3) }; return d }
	for _, n := range []int{0, 1, 2, 7, 8, 9, 31, 32, 33, 4095, 4096, 4097, boson.ChunkSize - 1, boson.ChunkSize, boson.ChunkSize + 1, boson.ChunkSize + 8, boson.ChunkSize + 9} {
		d := mkdata(n)
		c, err := New(d)
		wantOK := n >= 1 && n <= boson.ChunkSize
		if (err == nil) != wantOK { t.Logf("REPLAY-CONFIRMED New(len %d): err=%v, want success=%v", n, err, wantOK); return }
		if err == nil {
			span := make([]byte, 8); binary.LittleEndian.PutUint64(span, uint64(n))
			if !bytes.Equal(c.Data(), append(span, d...)) { t.Logf("REPLAY-CONFIRMED New(len %d): payload is not LE64(len) ++ data", n); return }
			if !Valid(c) || !verifRefValid(c.Address().Bytes(), c.Data()) { t.Logf("REPLAY-CONFIRMED New(len %d) produced an invalid chunk", n); return }
			// single-byte mutations
			for _, p := range []int{0, 3, 7, 8, len(c.Data()) / 2, len(c.Data()) - 1} {
				if p >= len(c.Data()) { continue }
				m := append([]byte(nil), c.Data()...); m[p] ^= 0x10
				mc := boson.NewChunk(c.Address(), m)
				if Valid(mc) != verifRefValid(c.Address().Bytes(), m) { t.Logf("REPLAY-CONFIRMED Valid disagrees with the definition after mutating payload byte %d (len %d)", p, n); return }
			}
			a := append([]byte(nil), c.Address().Bytes()...); a[5] ^= 1
			if Valid(boson.NewChunk(boson.NewAddress(a), c.Data())) { t.Logf("REPLAY-CONFIRMED Valid accepts a wrong address (len %d)", n); return }
		}
		c2, err2 := NewWithDataSpan(d)
		want2 := n >= 8 && n <= boson.ChunkSize+8
		if (err2 == nil) != want2 { t.Logf("REPLAY-CONFIRMED NewWithDataSpan(len %d): err=%v, want success=%v", n, err2, want2); return }
		if err2 == nil && (!Valid(c2) || !bytes.Equal(c2.Data(), d) || !verifRefValid(c2.Address().Bytes(), d)) { t.Logf("REPLAY-CONFIRMED NewWithDataSpan(len %d) produced an invalid chunk", n); return }
		// Valid on arbitrary (address, payload) pairs of this length
		addr := make([]byte, 32)
		if Valid(boson.NewChunk(boson.NewAddress(addr), d)) != verifRefValid(addr, d) { t.Logf("REPLAY-CONFIRMED Valid disagrees with the definition on a payload of length %d", n); return }
		if n >= 8 {
			ok := boson.NewChunk(boson.NewAddress(verifRefHash(d)), d)
			if Valid(ok) != verifRefValid(verifRefHash(d), d) { t.Logf("REPLAY-CONFIRMED Valid disagrees with the definition on a correctly addressed payload of length %d", n); return }
		}
	}
	// the span is opaque for validity: correctly addressed payloads with spans below, at and above
	// the number of data bytes they carry
	for _, n := range []int{1, 31, 64, 4096, boson.ChunkSize} {
		for _, sp := range []uint64{0, 1, uint64(n) / 2, uint64(n) - 1, uint64(n), uint64(n) + 1, 1 << 40, ^uint64(0)} {
			d := make([]byte, 8+n)
			binary.LittleEndian.PutUint64(d, sp)
			for i := 8; i < len(d); i++ { d[i] = byte(i*5 + 1) }
			ok := boson.NewChunk(boson.NewAddress(verifRefHash(d)), d)
			if !Valid(ok) {
				t.Logf("REPLAY-CONFIRMED Valid rejects a chunk of %d data bytes whose address is the BMT hash of its payload because its span says %d", n, sp); return
			}
			if c, err := NewWithDataSpan(d); err != nil || !Valid(c) {
				t.Logf("REPLAY-CONFIRMED NewWithDataSpan built a chunk (%d data bytes, span %d) that Valid rejects (err %v)", n, sp, err); return
			}
		}
	}
	t.Logf("not reproduced")
}
'''

def build(unit, obl, vals):
    return {"pkg": "pkg/cac", "test": TEST.replace("%%", "%")}

"""Replay for C35: drive the real Authenticator with the model's bytes as a token
plus a fixed battery of malformed / tampered / expired tokens; a panic, an
honoured invalid token, a revived expired token or a changed role confirms."""
import os, sys, base64
sys.path.insert(0, os.path.dirname(os.path.dirname(os.path.abspath(__file__))) + "/tools")
from check import slice_bytes

TEST = '''package auth

import (
	"encoding/base64"
	"io"
	"testing"

	"github.com/gauss-project/aurorafs/pkg/logging"
)

func TestVerifReplay(t *testing.T) {
	a, err := New("verif-replay-key", "$2a$12$mZIODMvjsiS2VdK1xgI1cOTizhGVNoVz2Xn48H8ddFFLzX2B3lD3m", logging.New(io.Discard, 0))
	if err != nil { t.Fatal(err) }
	model := []byte{%(data)s}
	tokens := []string{base64.StdEncoding.EncodeToString(model), "", "A", "AAAA", "!!!!"}
	for n := 0; n <= 40; n++ {
		tokens = append(tokens, base64.StdEncoding.EncodeToString(make([]byte, n)))
	}
	valid, err := a.GenerateKey("consumer", 100)
	if err != nil { t.Fatal(err) }
	raw, _ := base64.StdEncoding.DecodeString(valid)
	for i := range raw {
		c := append([]byte(nil), raw...)
		c[i] ^= 0x01
		tokens = append(tokens, base64.StdEncoding.EncodeToString(c))
	}
	for n := 0; n < len(raw); n++ {
		tokens = append(tokens, base64.StdEncoding.EncodeToString(raw[:n]))
	}
	confirmed := false
	try := func(what string, f func() string) {
		defer func() {
			if r := recover(); r != nil {
				t.Logf("REPLAY-CONFIRMED %%s panicked: %%v", what, r)
				confirmed = true
			}
		}()
		if msg := f(); msg != "" {
			t.Logf("REPLAY-CONFIRMED %%s: %%s", what, msg)
			confirmed = true
		}
	}
	for _, tok := range tokens {
		tok := tok
		if confirmed { return }
		try("Enforce(malformed token)", func() string {
			ok, err := a.Enforce(tok, "/bytes/1", "GET")
			if ok { return "invalid token honoured" }
			if err == nil { return "invalid token rejected without error" }
			return ""
		})
		try("RefreshKey(malformed token)", func() string {
			if _, err := a.RefreshKey(tok, 10); err == nil { return "invalid token refreshed" }
			return ""
		})
	}
	if confirmed { return }
	try("valid consumer token", func() string {
		if ok, err := a.Enforce(valid, "/bytes/1", "GET"); !ok || err != nil { return "valid token not honoured for an allowed request" }
		if ok, _ := a.Enforce(valid, "/bytes", "POST"); ok { return "consumer token honoured for a creator-only request" }
		if ok, _ := a.Enforce(valid, "/nonexistent", "GET"); ok { return "token honoured for a path outside the policy" }
		return ""
	})
	try("expired token", func() string {
		old, err := a.GenerateKey("consumer", -5)
		if err != nil { return "" }
		if ok, err := a.Enforce(old, "/bytes/1", "GET"); ok || err == nil { return "expired token honoured" }
		if _, err := a.RefreshKey(old, 100); err == nil { return "expired token revived by refresh" }
		return ""
	})
	try("refresh", func() string {
		nk, err := a.RefreshKey(valid, 100)
		if err != nil { return "valid token could not be refreshed" }
		if ok, err := a.Enforce(nk, "/bytes/1", "GET"); !ok || err != nil { return "refreshed token lost its role" }
		if ok, _ := a.Enforce(nk, "/bytes", "POST"); ok { return "refreshed token gained a role" }
		if _, err := a.RefreshKey(valid, 0); err == nil { return "zero duration accepted" }
		return ""
	})
	if !confirmed { t.Logf("not reproduced") }
}
'''

def build(unit, obl, vals):
    data = slice_bytes(vals, "data") or []
    return {"pkg": "pkg/auth", "test": TEST % {"data": ", ".join(map(str, data[:4096]))}}

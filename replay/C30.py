"""Replay for C30: drive the real traffic.Service + the real chequeStore (in-memory
state store, stub address book, stub signature recovery) over a grid of cheque
scenarios: registered / unregistered sender, foreign issuer, wrong recipient,
bad signature, increasing / replayed / decreasing payouts."""

TEST = '''package traffic

import (
	"context"
	"errors"
	"io"
	"math/big"
	"strings"
	"sync"
	"testing"
	"time"

	"github.com/ethereum/go-ethereum/common"
	"github.com/gauss-project/aurorafs/pkg/boson"
	"github.com/gauss-project/aurorafs/pkg/logging"
	chequePkg "github.com/gauss-project/aurorafs/pkg/settlement/traffic/cheque"
	"github.com/gauss-project/aurorafs/pkg/statestore/mock"
	"github.com/gauss-project/aurorafs/pkg/storage"
	"github.com/gauss-project/aurorafs/pkg/subscribe"
)

// state store in which a read of a last-received-cheque record waits (up to 300 ms) for a second
// concurrent reader of such a record: two overlapping cheques of one issuer then both see the old record
// - unless the store serialises them
type verifMeetStore struct {
	storage.StateStorer
	mu      sync.Mutex
	waiting chan struct{}
}

func (m *verifMeetStore) Get(key string, i interface{}) error {
	if strings.Contains(key, "received_cheque") {
		m.mu.Lock()
		if m.waiting == nil {
			ch := make(chan struct{})
			m.waiting = ch
			m.mu.Unlock()
			select {
			case <-ch:
			case <-time.After(300 * time.Millisecond):
				m.mu.Lock(); if m.waiting == ch { m.waiting = nil }; m.mu.Unlock()
			}
		} else {
			close(m.waiting)
			m.waiting = nil
			m.mu.Unlock()
		}
	}
	return m.StateStorer.Get(key, i)
}

type verifBook struct{ m map[string]common.Address }

func (b *verifBook) Beneficiary(p boson.Address) (common.Address, bool) { a, ok := b.m[p.String()]; return a, ok }
func (b *verifBook) BeneficiaryPeer(common.Address) (boson.Address, bool) { return boson.ZeroAddress, false }
func (b *verifBook) PutBeneficiary(boson.Address, common.Address) error  { return nil }
func (b *verifBook) InitAddressBook() error                               { return nil }

func TestVerifReplay(t *testing.T) {
	self := common.HexToAddress("0x1000000000000000000000000000000000000001")
	issuerA := common.HexToAddress("0xa00000000000000000000000000000000000000a")
	issuerB := common.HexToAddress("0xb00000000000000000000000000000000000000b")
	stranger := common.HexToAddress("0xc00000000000000000000000000000000000000c")
	peerA := boson.MustParseHexAddress("aa00000000000000000000000000000000000000000000000000000000000000")
	peerB := boson.MustParseHexAddress("bb00000000000000000000000000000000000000000000000000000000000000")
	peerX := boson.MustParseHexAddress("cc00000000000000000000000000000000000000000000000000000000000000")
	// signature "valid" iff its first byte is 1; the signer is then the stated issuer,
	// a signature starting with 2 is valid but made by the stranger
	recover := func(c *chequePkg.SignedCheque, _ int64) (common.Address, error) {
		if len(c.Signature) == 0 || c.Signature[0] == 0 { return common.Address{}, errors.New("bad signature") }
		if c.Signature[0] == 2 { return stranger, nil }
		return c.Beneficiary, nil
	}
	mk := func() *Service {
		st := mock.NewStateStore()
		return &Service{
			logger:       logging.New(io.Discard, 0),
			chainAddress: self,
			store:        st,
			chequeStore:  chequePkg.NewChequeStore(st, self, recover, 1),
			addressBook:  &verifBook{m: map[string]common.Address{peerA.String(): issuerA, peerB.String(): issuerB}},
			trafficPeers: TrafficPeer{trafficPeers: map[string]*Traffic{}, balance: big.NewInt(0), totalPaidOut: big.NewInt(0)},
			subPub:       subscribe.NewSubPub(),
		}
	}
	type step struct {
		from      boson.Address
		issuer    common.Address
		recipient common.Address
		sig       byte
		payout    int64
	}
	credited := func(s *Service, a common.Address) int64 {
		tr := s.getTraffic(a)
		tr.Lock(); defer tr.Unlock()
		return tr.transferChequeTraffic.Int64()
	}
	run := func(name string, steps []step) bool {
		s := mk()
		high := map[common.Address]int64{}
		for i, st := range steps {
			c := &chequePkg.SignedCheque{Cheque: chequePkg.Cheque{Recipient: st.recipient, Beneficiary: st.issuer, CumulativePayout: big.NewInt(st.payout)}, Signature: []byte{st.sig}}
			err := s.ReceiveCheque(context.Background(), st.from, c)
			reg, known := s.addressBook.Beneficiary(st.from)
			should := known && reg == st.issuer && st.recipient == self && st.sig == 1 && st.payout > high[st.issuer]
			if err == nil && !should {
				t.Logf("REPLAY-CONFIRMED %%s step %%d: cheque accepted although it must be rejected (sender registered=%%v as %%x, issuer %%x, recipient %%x, sig %%d, payout %%d, highest so far %%d)", name, i, known, reg, st.issuer, st.recipient, st.sig, st.payout, high[st.issuer])
				return true
			}
			if err != nil && should {
				t.Logf("REPLAY-CONFIRMED %%s step %%d: valid cheque rejected: %%v", name, i, err)
				return true
			}
			if err == nil { high[st.issuer] = st.payout }
			time.Sleep(2 * time.Millisecond)
			for _, a := range []common.Address{issuerA, issuerB, stranger} {
				if got := credited(s, a); got != high[a] {
					t.Logf("REPLAY-CONFIRMED %%s step %%d: issuer %%x credited %%d, highest accepted payout %%d", name, i, a, got, high[a])
					return true
				}
			}
		}
		return false
	}
	scenarios := map[string][]step{
		"valid-then-replay":      {{peerA, issuerA, self, 1, 100}, {peerA, issuerA, self, 1, 100}, {peerA, issuerA, self, 1, 90}, {peerA, issuerA, self, 1, 150}},
		"foreign-issuer":         {{peerA, issuerB, self, 1, 77}},
		"foreign-issuer-after":   {{peerB, issuerB, self, 1, 10}, {peerA, issuerB, self, 1, 77}},
		"stranger-issuer":        {{peerA, stranger, self, 1, 55}},
		"wrong-recipient":        {{peerA, issuerA, stranger, 1, 60}},
		"wrong-recipient-and-issuer": {{peerA, issuerB, stranger, 1, 60}},
		"bad-signature":          {{peerA, issuerA, self, 0, 60}},
		"signed-by-other":        {{peerA, issuerA, self, 2, 60}},
		"unregistered-peer":      {{peerX, issuerA, self, 1, 60}},
		"reorder":                {{peerA, issuerA, self, 1, 200}, {peerA, issuerA, self, 1, 150}, {peerB, issuerB, self, 1, 5}, {peerA, issuerA, self, 1, 201}},
	}
	for name, steps := range scenarios {
		if run(name, steps) { return }
	}
	// ---- two overlapping cheques of one issuer handed to the cheque store itself
	for _, pays := range [][2]int64{{10, 10}, {20, 10}, {10, 20}} {
		ms := &verifMeetStore{StateStorer: mock.NewStateStore()}
		cs := chequePkg.NewChequeStore(ms, self, recover, 1)
		type res struct{ amt *big.Int; err error }
		out := make(chan res, 2)
		for _, pv := range pays {
			pv := pv
			go func() {
				a, err := cs.ReceiveCheque(context.Background(), &chequePkg.SignedCheque{Cheque: chequePkg.Cheque{Recipient: self, Beneficiary: issuerA, CumulativePayout: big.NewInt(pv)}, Signature: []byte{1}})
				out <- res{a, err}
			}()
		}
		total, highest, accepted := int64(0), int64(0), 0
		for i := 0; i < 2; i++ {
			r := <-out
			if r.err == nil { accepted++; total += r.amt.Int64() }
		}
		for _, pv := range pays { if pv > highest { highest = pv } }
		if total > highest {
			t.Logf("REPLAY-CONFIRMED two overlapping cheques of one issuer with cumulative payouts %v handed to the cheque store: %d accepted, %d credited in total, the highest cumulative payout is %d", pays, accepted, total, highest)
			return
		}
	}
	t.Logf("not reproduced")
}
'''

def build(unit, obl, vals):
    return {"pkg": "pkg/settlement/traffic", "test": TEST.replace("%%", "%")}

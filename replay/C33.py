"""Replay for C33: the real traffic.Service over the real cheque store and the (mock)
state store.  Scenarios: (1) two concurrent Put*Traffic calls for one peer with the
first state-store write delayed (a deterministic schedule forced by a blocking store
wrapper), then a restart; (2) restore (trafficPeerChequeUpdate) from a store in which
the persisted total lags the chain record or the last cheque.  After the restart no
total may be below its value before the restart / below what chain, cheques and store
witness, and nothing already paid by cheque may be owed again."""

TEST = '''package traffic

import (
	"io"
	"math/big"
	"strings"
	"sync"
	"testing"
	"time"

	"github.com/ethereum/go-ethereum/common"
	"github.com/gauss-project/aurorafs/pkg/boson"
	"github.com/gauss-project/aurorafs/pkg/logging"
	chequePkg "github.com/gauss-project/aurorafs/pkg/settlement/traffic/cheque"
	"github.com/gauss-project/aurorafs/pkg/statestore/mock"
	"github.com/gauss-project/aurorafs/pkg/storage"
	"github.com/gauss-project/aurorafs/pkg/subscribe"
)

// state store whose first Put on a key with the given prefix waits for release
type verifSlowStore struct {
	storage.StateStorer
	prefix  string
	mu      sync.Mutex
	n       int
	entered chan struct{}
	release chan struct{}
}

func (v *verifSlowStore) Put(key string, i interface{}) error {
	if strings.HasPrefix(key, v.prefix) {
		v.mu.Lock()
		v.n++
		first := v.n == 1
		v.mu.Unlock()
		if first {
			close(v.entered)
			<-v.release
		}
	}
	return v.StateStorer.Put(key, i)
}

// the real cheque store with a one-shot hook fired right after a persisted total was read
type verifHookedStore struct {
	chequePkg.ChequeStore
	mu   sync.Mutex
	hook func()
}

func (h *verifHookedStore) fire() {
	h.mu.Lock()
	f := h.hook
	h.hook = nil
	h.mu.Unlock()
	if f != nil { f() }
}

func (h *verifHookedStore) GetRetrieveTraffic(a common.Address) (*big.Int, error) {
	v, err := h.ChequeStore.GetRetrieveTraffic(a)
	h.fire()
	return v, err
}

func (h *verifHookedStore) GetTransferTraffic(a common.Address) (*big.Int, error) {
	v, err := h.ChequeStore.GetTransferTraffic(a)
	h.fire()
	return v, err
}

type verifBook struct{ peer boson.Address; chain common.Address }

func (b verifBook) Beneficiary(p boson.Address) (common.Address, bool) { return b.chain, p.Equal(b.peer) }
func (b verifBook) BeneficiaryPeer(c common.Address) (boson.Address, bool) { return b.peer, c == b.chain }
func (b verifBook) PutBeneficiary(boson.Address, common.Address) error { return nil }
func (b verifBook) InitAddressBook() error { return nil }

func verifService(st storage.StateStorer, self common.Address, book Addressbook) *Service {
	return &Service{
		logger: logging.New(io.Discard, 0), chainAddress: self, store: st,
		chequeStore:  chequePkg.NewChequeStore(st, self, func(c *chequePkg.SignedCheque, _ int64) (common.Address, error) { return c.Beneficiary, nil }, 1),
		trafficPeers: TrafficPeer{trafficPeers: map[string]*Traffic{}, balance: big.NewInt(1000), totalPaidOut: big.NewInt(0)},
		addressBook:  book, subPub: subscribe.NewSubPub(),
	}
}

func TestVerifReplay(t *testing.T) {
	self := common.HexToAddress("0x1000000000000000000000000000000000000001")
	peerChain := common.HexToAddress("0xa00000000000000000000000000000000000000a")
	peer := boson.MustParseHexAddress("aa00000000000000000000000000000000000000000000000000000000000000")
	book := verifBook{peer: peer, chain: peerChain}

	// ---- (1) delayed first write, for both totals
	for _, retrieve := range []bool{true, false} {
		prefix := "transferred_traffic_"
		if retrieve { prefix = "retrieved_traffic_" }
		base := mock.NewStateStore()
		slow := &verifSlowStore{StateStorer: base, prefix: prefix, entered: make(chan struct{}), release: make(chan struct{})}
		s := verifService(slow, self, book)
		put := func(n int64) error {
			if retrieve { return s.PutRetrieveTraffic(peer, big.NewInt(n)) }
			return s.PutTransferTraffic(peer, big.NewInt(n))
		}
		d1, d2 := make(chan error, 1), make(chan error, 1)
		go func() { d1 <- put(5) }()
		select {
		case <-slow.entered:
		case <-time.After(5 * time.Second):
			t.Logf("not reproduced: first write never reached the store"); return
		}
		go func() { d2 <- put(7) }()
		var e2 error
		second := false
		select {
		case e2 = <-d2:
			second = true
		case <-time.After(300 * time.Millisecond): // the second update waits for the first (persist under the lock)
		}
		close(slow.release)
		e1 := <-d1
		if !second { e2 = <-d2 }
		if e1 != nil || e2 != nil { t.Logf("not reproduced: %v %v", e1, e2); return }
		time.Sleep(50 * time.Millisecond) // let the publish goroutines finish
		tr := s.getTraffic(peerChain)
		before := new(big.Int).Set(tr.transferTraffic)
		if retrieve { before = new(big.Int).Set(tr.retrieveTraffic) }
		// restart over the same store
		s2 := verifService(base, self, book)
		if err := s2.trafficPeerChequeUpdate(peerChain, map[common.Address]*chequePkg.Cheque{}, map[common.Address]*chequePkg.SignedCheque{}); err != nil { t.Fatal(err) }
		tr2 := s2.getTraffic(peerChain)
		after := tr2.transferTraffic
		if retrieve { after = tr2.retrieveTraffic }
		if after.Cmp(before) < 0 {
			t.Logf("REPLAY-CONFIRMED two concurrent updates (+5, +7) of the %stotal with the first store write delayed: total before restart %v, restored %v (the older value was persisted last)", prefix, before, after); return
		}
	}

	// ---- (3) a refresh of the record (the periodic / API-triggered restore) overlapping an update:
	// the update tries to run right after the refresh has read the persisted total
	for _, retrieve := range []bool{true, false} {
		base := mock.NewStateStore()
		s := verifService(base, self, book)
		hs := &verifHookedStore{ChequeStore: s.chequeStore}
		s.chequeStore = hs
		put := func(n int64) error {
			if retrieve { return s.PutRetrieveTraffic(peer, big.NewInt(n)) }
			return s.PutTransferTraffic(peer, big.NewInt(n))
		}
		if err := put(100); err != nil { t.Fatal(err) }
		done := make(chan error, 1)
		hs.mu.Lock()
		hs.hook = func() {
			go func() { done <- put(50) }()
			select {
			case err := <-done: // slipped in between the read and the merge
				done <- err
			case <-time.After(300 * time.Millisecond): // waits for the record: it runs after the refresh
			}
		}
		hs.mu.Unlock()
		if err := s.trafficPeerChequeUpdate(peerChain, map[common.Address]*chequePkg.Cheque{}, map[common.Address]*chequePkg.SignedCheque{}); err != nil { t.Fatal(err) }
		if err := <-done; err != nil { t.Fatal(err) }
		if err := put(10); err != nil { t.Fatal(err) }
		time.Sleep(50 * time.Millisecond)
		s2 := verifService(base, self, book)
		if err := s2.trafficPeerChequeUpdate(peerChain, map[common.Address]*chequePkg.Cheque{}, map[common.Address]*chequePkg.SignedCheque{}); err != nil { t.Fatal(err) }
		tr2 := s2.getTraffic(peerChain)
		after := tr2.transferTraffic
		what := "transfer"
		if retrieve { after = tr2.retrieveTraffic; what = "retrieve" }
		if after.Cmp(big.NewInt(160)) < 0 {
			t.Logf("REPLAY-CONFIRMED %s total: 100 accounted, a refresh of the record overlapping an update of +50, then +10: restored after restart %v, accounted 160", what, after); return
		}
	}

	// ---- (2) restore from lagging records
	type sc struct{ chainR, chainT, sent, recv, savedR, savedT int64 }
	for _, c := range []sc{{50, 40, 200, 300, 100, 90}, {500, 400, 200, 300, 100, 90}, {50, 40, 200, 300, 1000, 900}, {0, 0, 160, 170, 100, 90}, {0, 0, -1, -1, 30, 20}} {
		st := mock.NewStateStore()
		s := verifService(st, self, book)
		_ = s.chequeStore.PutRetrieveTraffic(peerChain, big.NewInt(c.savedR))
		_ = s.chequeStore.PutTransferTraffic(peerChain, big.NewInt(c.savedT))
		tr := s.getTraffic(peerChain)
		tr.retrieveChainTraffic = big.NewInt(c.chainR)
		tr.transferChainTraffic = big.NewInt(c.chainT)
		last := map[common.Address]*chequePkg.Cheque{}
		lastT := map[common.Address]*chequePkg.SignedCheque{}
		if c.sent >= 0 { last[peerChain] = &chequePkg.Cheque{Recipient: peerChain, Beneficiary: self, CumulativePayout: big.NewInt(c.sent)} }
		if c.recv >= 0 { lastT[peerChain] = &chequePkg.SignedCheque{Cheque: chequePkg.Cheque{Recipient: self, Beneficiary: peerChain, CumulativePayout: big.NewInt(c.recv)}} }
		if err := s.trafficPeerChequeUpdate(peerChain, last, lastT); err != nil { t.Fatal(err) }
		max := func(a ...int64) *big.Int { m := int64(0); for _, x := range a { if x > m { m = x } }; return big.NewInt(m) }
		if tr.retrieveTraffic.Cmp(max(c.chainR, c.sent, c.savedR)) < 0 {
			t.Logf("REPLAY-CONFIRMED restore with chain=%d lastSentCheque=%d persisted=%d gives retrieve total %v: consumed traffic forgotten", c.chainR, c.sent, c.savedR, tr.retrieveTraffic); return
		}
		if tr.transferTraffic.Cmp(max(c.chainT, c.recv, c.savedT)) < 0 {
			t.Logf("REPLAY-CONFIRMED restore with chain=%d lastReceivedCheque=%d persisted=%d gives transfer total %v: served traffic forgotten", c.chainT, c.recv, c.savedT, tr.transferTraffic); return
		}
		if tr.retrieveChequeTraffic.Cmp(max(c.chainR, c.sent)) < 0 || tr.transferChequeTraffic.Cmp(max(c.chainT, c.recv)) < 0 {
			t.Logf("REPLAY-CONFIRMED restore gives cheque totals %v / %v below the last cheques %d / %d or the chain records", tr.retrieveChequeTraffic, tr.transferChequeTraffic, c.sent, c.recv); return
		}
		if tr.retrieveTraffic.Cmp(tr.retrieveChequeTraffic) < 0 {
			t.Logf("REPLAY-CONFIRMED after restore the traffic owed %v is below what was already paid by cheque %v: the next cheque re-pays it", tr.retrieveTraffic, tr.retrieveChequeTraffic); return
		}
	}
	t.Logf("not reproduced")
}
'''


def build(unit, obl, vals):
    if "traffic/cheque." in unit:
        return None  # cheque store units: no scenario here
    return {"pkg": "pkg/settlement/traffic", "test": TEST}

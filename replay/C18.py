"""Replay for C18: both state stores (LevelDB-backed in memory, and the mock)
against a reference map: read-back, delete, prefix iteration visits exactly the
matching keys in ascending byte order, stops when asked, and returns the
callback's error."""

TEST_LDB = '''package leveldb

import (
	"errors"
	"io"
	"sort"
	"strings"
	"testing"

	"github.com/gauss-project/aurorafs/pkg/logging"
	"github.com/gauss-project/aurorafs/pkg/storage"
)

func TestVerifReplay(t *testing.T) {
	s, err := NewInMemoryStateStore(logging.New(io.Discard, 0))
	if err != nil { t.Fatal(err) }
	defer s.Close()
	verifCheckStore(t, s)
}
''' 

TEST_MOCK = '''package mock

import (
	"errors"
	"sort"
	"strings"
	"testing"

	"github.com/gauss-project/aurorafs/pkg/storage"
)

func TestVerifReplay(t *testing.T) {
	for round := 0; round < 20; round++ { // map order is randomised per run
		if verifCheckStore(t, NewStateStore()) { return }
	}
}
'''

COMMON = '''
func verifCheckStore(t *testing.T, s storage.StateStorer) bool {
	keys := []string{"p_b", "p_a", "q_x", "p_", "p_ab", "p_c", "o_z", "p_a0", "p_zz", "p"}
	ref := map[string]string{}
	for i, k := range keys {
		v := strings.Repeat("v", i+1)
		if err := s.Put(k, v); err != nil { t.Logf("put: %v", err); return false }
		ref[k] = v
	}
	_ = s.Delete("p_c"); delete(ref, "p_c")
	for k, v := range ref {
		var got string
		if err := s.Get(k, &got); err != nil || got != v { t.Logf("REPLAY-CONFIRMED Get(%q) = %q, %v; stored %q", k, got, err, v); return true }
	}
	var gone string
	if err := s.Get("p_c", &gone); err != storage.ErrNotFound { t.Logf("REPLAY-CONFIRMED deleted key still readable: %v", err); return true }
	var want []string
	for k := range ref { if strings.HasPrefix(k, "p_") { want = append(want, k) } }
	sort.Strings(want)
	var got []string
	if err := s.Iterate("p_", func(k, v []byte) (bool, error) { got = append(got, string(k)); return false, nil }); err != nil { t.Logf("iterate: %v", err); return false }
	if strings.Join(got, ",") != strings.Join(want, ",") {
		t.Logf("REPLAY-CONFIRMED Iterate(\\"p_\\") visited %v, want exactly %v in ascending order", got, want); return true
	}
	// prefixes whose last bytes are 0xff (the range limit needs a carry, or no limit at all)
	for _, pf := range []string{"q\\xff", "q\\xff\\xff", "\\xff", "\\xff\\xff"} {
		for _, suf := range []string{"", "a", "\\xff"} { _ = s.Put(pf+suf, "x") }
		var w []string
		for _, suf := range []string{"", "a", "\\xff"} { w = append(w, pf+suf) }
		var g []string
		if err := s.Iterate(pf, func(k, v []byte) (bool, error) { if strings.HasPrefix(string(k), pf) && len(k) <= len(pf)+1 { g = append(g, string(k)) }; return false, nil }); err != nil { t.Logf("iterate: %v", err); return false }
		sort.Strings(w)
		have := map[string]bool{}
		for _, k := range g { have[k] = true }
		for _, k := range w {
			if !have[k] { t.Logf("REPLAY-CONFIRMED Iterate(%q) does not visit the stored key %q (visited %q)", pf, k, g); return true }
		}
	}
	// stop after two
	n := 0
	_ = s.Iterate("p_", func(k, v []byte) (bool, error) { n++; return n == 2, nil })
	if n != 2 { t.Logf("REPLAY-CONFIRMED callback invoked %d times although it asked to stop at the 2nd", n); return true }
	// callback error
	boom := errors.New("callback failed")
	n = 0
	err := s.Iterate("p_", func(k, v []byte) (bool, error) { n++; if n == 2 { return false, boom }; return false, nil })
	if !errors.Is(err, boom) { t.Logf("REPLAY-CONFIRMED the callback's error was not returned by Iterate (got %v)", err); return true }
	if n != 2 { t.Logf("REPLAY-CONFIRMED callback invoked again after it returned an error (%d calls)", n); return true }
	// error together with stop, at the first, a middle and the last key
	for _, at := range []int{1, 3, len(want)} {
		n = 0
		err = s.Iterate("p_", func(k, v []byte) (bool, error) { n++; if n == at { return true, boom }; return false, nil })
		if !errors.Is(err, boom) { t.Logf("REPLAY-CONFIRMED callback returned (stop=true, error) at key %d: Iterate returned %v instead of the error", at, err); return true }
		if n != at { t.Logf("REPLAY-CONFIRMED callback invoked %d times although it stopped with an error at key %d", n, at); return true }
	}
	return false
}
'''

def build(unit, obl, vals):
    if "leveldb" in unit:
        return {"pkg": "pkg/statestore/leveldb", "test": TEST_LDB + COMMON, "tags": "leveldb"}
    return {"pkg": "pkg/statestore/mock", "test": TEST_MOCK + COMMON}

"""Replay for C08: real chunks are encrypted with the real chunk encrypter for spans from
every tree level (leaf, levels 1..4, boundaries, exact multiples of the branching factor),
stored behind a map getter and read back through the real decrypting store; the decrypted
chunk must have exactly the stored payload length (data length for leaves, 64 bytes per child
reference otherwise, computed independently) and the original bytes."""

TEST = '''package store_test

import (
	"bytes"
	"context"
	"encoding/binary"
	"math/rand"
	"testing"

	"github.com/gauss-project/aurorafs/pkg/boson"
	"github.com/gauss-project/aurorafs/pkg/encryption"
	"github.com/gauss-project/aurorafs/pkg/encryption/store"
	"github.com/gauss-project/aurorafs/pkg/storage"
)

type verifGetter map[string]boson.Chunk

func (m verifGetter) Get(_ context.Context, _ storage.ModeGet, addr boson.Address) (boson.Chunk, error) {
	ch, ok := m[addr.String()]
	if !ok { return nil, storage.ErrNotFound }
	return ch, nil
}

func verifWant(span uint64) uint64 {
	if span <= boson.ChunkSize { return span }
	childCap := uint64(boson.ChunkSize)
	for span > childCap*boson.EncryptedBranches { childCap *= boson.EncryptedBranches }
	return (span + childCap - 1) / childCap * encryption.ReferenceSize
}

func TestVerifReplay(t *testing.T) {
	const C = uint64(boson.ChunkSize)
	const B = uint64(boson.EncryptedBranches)
	spans := []uint64{0, 1, 31, 32, 33, C - 1, C, C + 1, 2 * C, 3*C + 5, B*C - 1, B * C, B*C + 1, (B + 1) * C, 2*B*C - C, 2*B*C - 1, 2 * B * C, 3 * B * C,
		2*B*C - C + 1, 100 * B * C, B * B * C, B*B*C + 1, 2 * B * B * C, 5 * B * B * C, B * B * B * C, B*B*B*C + 1, 7*B*B*B*C - 3, 1 << 62}
	rnd := rand.New(rand.NewSource(1))
	for i := 0; i < 40; i++ { spans = append(spans, rnd.Uint64()>>uint(1+rnd.Intn(50))) }
	for _, span := range spans {
		want := verifWant(span)
		plain := make([]byte, boson.SpanSize+want)
		binary.LittleEndian.PutUint64(plain[:boson.SpanSize], span)
		rnd.Read(plain[boson.SpanSize:])
		key, encSpan, encData, err := encryption.NewChunkEncrypter().EncryptChunk(plain)
		if err != nil { t.Logf("not reproduced: encrypt %v", err); return }
		if uint64(len(encData)) != C || len(encSpan) != 8 {
			t.Logf("REPLAY-CONFIRMED span %d: ciphertext lengths %d / %d, want 8 / %d", span, len(encSpan), len(encData), C); return
		}
		ab := make([]byte, boson.HashSize)
		rnd.Read(ab)
		addr := boson.NewAddress(ab)
		g := verifGetter{addr.String(): boson.NewChunk(addr, append(append([]byte{}, encSpan...), encData...))}
		ref := boson.NewAddress(append(append([]byte{}, ab...), key...))
		var got boson.Chunk
		panicked := false
		func() {
			defer func() { if r := recover(); r != nil { panicked = true; t.Logf("REPLAY-CONFIRMED span %d: decrypting store panicked: %v", span, r) } }()
			got, err = store.New(g).Get(context.Background(), storage.ModeGetRequest, ref)
		}()
		if panicked { return }
		if got == nil || err != nil { t.Logf("REPLAY-CONFIRMED span %d: Get failed: %v", span, err); return }
		if uint64(len(got.Data())) != boson.SpanSize+want {
			t.Logf("REPLAY-CONFIRMED span %d: decrypted payload length %d, the encrypted writer stored %d", span, len(got.Data())-boson.SpanSize, want); return
		}
		if !bytes.Equal(got.Data(), plain) { t.Logf("REPLAY-CONFIRMED span %d: decrypted chunk differs from what was encrypted", span); return }
	}
	t.Logf("not reproduced")
}
'''


def build(unit, obl, vals):
    return {"pkg": "pkg/encryption/store", "pkgname": "store_test", "test": TEST}

"""Replay for C24 (also used by C22): a real Kad driven only through its notifier entry points
(Connected / Disconnected / Reachable), random histories over peers in several bins, some of
them carrying the boot-node flag on top of full-node mode; after every step the peers the
topology reports as connected are exactly the live connections, and the neighbourhood depth
equals the depth of a fresh node with the same overlay on which the same set of connected,
reachable peers is built directly (depth recomputed on every change, history independent)."""

TEST = '''package kademlia_test

import (
	"context"
	"math/rand"
	"testing"

	"github.com/gauss-project/aurorafs/pkg/aurora"
	"github.com/gauss-project/aurorafs/pkg/boson"
	"github.com/gauss-project/aurorafs/pkg/boson/test"
	"github.com/gauss-project/aurorafs/pkg/p2p"
	"github.com/gauss-project/aurorafs/pkg/topology"
	"github.com/gauss-project/aurorafs/pkg/topology/kademlia"
)

func verifConnected(k *kademlia.Kad) map[string]bool {
	m := make(map[string]bool)
	_ = k.EachPeer(func(a boson.Address, _ uint8) (bool, bool, error) { m[a.ByteString()] = true; return false, false, nil }, topology.Filter{})
	return m
}

func TestVerifReplay(t *testing.T) {
	full := aurora.NewModel().SetMode(aurora.FullNode)
	boot := aurora.NewModel().SetMode(aurora.FullNode).SetMode(aurora.BootNode)
	for seed := int64(1); seed <= 4; seed++ {
		rnd := rand.New(rand.NewSource(seed))
		base, kad, ab, _, signer := newTestKademlia(t, nil, nil, kademlia.Options{})
		type pr struct{ a boson.Address; mode aurora.Model; live, public bool }
		var peers []*pr
		for bin := 0; bin < 6; bin++ {
			n := 4
			if bin >= 3 { n = 2 }
			for j := 0; j < n; j++ {
				m := full
				if rnd.Intn(5) == 0 { m = boot }
				peers = append(peers, &pr{a: test.RandomAddressAt(base, bin), mode: m})
			}
		}
		for step := 0; step < 70; step++ {
			p := peers[rnd.Intn(len(peers))]
			switch rnd.Intn(3) {
			case 0:
				if !p.live {
					connectOne(t, signer, kad, ab, p.a, nil) // registers the address, calls Connected (mode full)
					if p.mode.IsBootNode() { // re-dial with the boot flag set on top of full mode
						kad.Disconnected(p2p.Peer{Address: p.a, Mode: full}, "reset")
						if err := kad.Connected(context.Background(), p2p.Peer{Address: p.a, Mode: p.mode}, true); err != nil { t.Logf("not reproduced: %v", err); return }
					}
					p.live = true
				}
			case 1:
				if p.live {
					kad.Disconnected(p2p.Peer{Address: p.a, Mode: p.mode}, "gone")
					p.live = false
				}
			case 2:
				if p.live && !p.public { kad.Reachable(p.a, p2p.ReachabilityStatusPublic); p.public = true }
			}
			got := verifConnected(kad)
			nlive := 0
			for _, q := range peers {
				if q.live { nlive++ }
				if q.live != got[q.a.ByteString()] {
					t.Logf("REPLAY-CONFIRMED after step %d a peer (boot flag: %v) is live=%v but reported connected=%v", step, q.mode.IsBootNode(), q.live, got[q.a.ByteString()]); return
				}
			}
			if len(got) != nlive { t.Logf("REPLAY-CONFIRMED topology reports %d connected peers, %d connections are live", len(got), nlive); return }
			if step%7 == 6 {
				_, fresh, ab2, _, signer2 := newTestKademliaWithAddr(t, base, nil, nil, kademlia.Options{})
				for _, q := range peers {
					if q.live {
						connectOne(t, signer2, fresh, ab2, q.a, nil)
						if q.public { fresh.Reachable(q.a, p2p.ReachabilityStatusPublic) }
					}
				}
				// reachability recorded for a peer survives its disconnect in the collector: replicate that too
				for _, q := range peers {
					if !q.live && q.public { fresh.Reachable(q.a, p2p.ReachabilityStatusPublic) }
				}
				if d, want := kad.NeighborhoodDepth(), fresh.NeighborhoodDepth(); d != want {
					t.Logf("REPLAY-CONFIRMED after step %d the depth is %d, a node with the same connected set has depth %d (depth not recomputed on a change)", step, d, want); return
				}
			}
		}
	}
	// fixed scenario: depth 3 pinned by exactly three reachable peers at or beyond it; the deepest leaves
	{
		base, kad, ab, _, signer := newTestKademlia(t, nil, nil, kademlia.Options{})
		connect := func(k *kademlia.Kad, a boson.Address) { connectOne(t, signer, k, ab, a, nil); k.Reachable(a, p2p.ReachabilityStatusPublic) }
		var remaining []boson.Address
		for bin := 0; bin < 3; bin++ {
			for j := 0; j < 4; j++ { a := test.RandomAddressAt(base, bin); connect(kad, a); remaining = append(remaining, a) }
		}
		for j := 0; j < 2; j++ { a := test.RandomAddressAt(base, 3); connect(kad, a); remaining = append(remaining, a) }
		deep := test.RandomAddressAt(base, 5)
		connect(kad, deep)
		kad.Disconnected(p2p.Peer{Address: deep, Mode: full}, "gone")
		depth := kad.NeighborhoodDepth()
		_, fresh, ab2, _, signer2 := newTestKademliaWithAddr(t, base, nil, nil, kademlia.Options{})
		for _, a := range remaining { connectOne(t, signer2, fresh, ab2, a, nil); fresh.Reachable(a, p2p.ReachabilityStatusPublic) }
		if want := fresh.NeighborhoodDepth(); depth != want {
			t.Logf("REPLAY-CONFIRMED a reachable peer at or beyond the depth disconnects: depth stays %d, a node with the same connected set has depth %d (depth not recomputed)", depth, want); return
		}
	}
	// fixed scenario: admission.  Three full bins, the storage radius lowered below the depth of the
	// connected set; an unprotected inbound full node for a full bin at or beyond the (capped)
	// depth must be refused, and Pick and Connected must agree
	{
		old := *kademlia.OverSaturationPeers
		*kademlia.OverSaturationPeers = 4
		base, kad, ab, _, signer := newTestKademlia(t, nil, nil, kademlia.Options{ReachabilityFunc: func(_ boson.Address) bool { return false }})
		for bin := 0; bin < 3; bin++ {
			for j := 0; j < 4; j++ { connectOne(t, signer, kad, ab, test.RandomAddressAt(base, bin), nil) }
		}
		kad.SetRadius(1)
		newcomer := test.RandomAddressAt(base, 1)
		picked := kad.Pick(p2p.Peer{Address: newcomer, Mode: full})
		err := kad.Connected(context.Background(), p2p.Peer{Address: newcomer, Mode: full}, false)
		n := len(verifConnected(kad))
		*kademlia.OverSaturationPeers = old
		if !picked && (err == nil || n != 12) {
			t.Logf("REPLAY-CONFIRMED bin 1 holds 4 of at most 4 peers and Pick refuses the newcomer, yet Connected admits it (error %v, %d peers connected instead of 12): an unprotected inbound full node entered an oversaturated bin", err, n); return
		}
	}
	t.Logf("not reproduced")
}
'''


def build(unit, obl, vals):
    return {"pkg": "pkg/topology/kademlia", "pkgname": "kademlia_test", "test": TEST, "tags": "leveldb", "mask_all_tests": False}

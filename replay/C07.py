"""Replay for C07: store files of several sizes with the real splitter, then
drive the real joiner: ReadAt with buffers whose capacity exceeds their length,
all offsets around chunk and file boundaries, sequential Read, and Seek."""

TEST = '''package joiner_test

import (
	"bytes"
	"context"
	"io"
	"testing"

	"github.com/gauss-project/aurorafs/pkg/boson"
	"github.com/gauss-project/aurorafs/pkg/file/joiner"
	"github.com/gauss-project/aurorafs/pkg/file/splitter"
	"github.com/gauss-project/aurorafs/pkg/storage"
	"github.com/gauss-project/aurorafs/pkg/storage/mock"
)

func TestVerifReplay(t *testing.T) {
	ctx := context.Background()
	for _, size := range []int{1, 10, 31, boson.ChunkSize - 1, boson.ChunkSize, boson.ChunkSize + 7, 2*boson.ChunkSize + 100} {
		st := mock.NewStorer()
		content := make([]byte, size)
		for i := range content { content[i] = byte(i*31 + i/251 + 7) }
		addr, err := splitter.NewSimpleSplitter(st, storage.ModePutUpload).Split(ctx, io.NopCloser(bytes.NewReader(content)), int64(size), false)
		if err != nil { t.Fatal(err) }
		j, span, err := joiner.New(ctx, st, storage.ModeGetLookup, addr)
		if err != nil { t.Fatal(err) }
		if span != int64(size) { t.Logf("REPLAY-CONFIRMED size %d reported as %d", size, span); return }
		offs := []int64{0, 1, int64(size) / 2, int64(size) - 1, int64(size), int64(size) + 5, int64(boson.ChunkSize) - 3, int64(boson.ChunkSize)}
		for _, off := range offs {
			if off < 0 { continue }
			for _, shape := range [][2]int{{0, 1}, {1, 1}, {2, 10}, {5, 64}, {100, 100}, {40, 4096}} {
				back := make([]byte, shape[1])
				for i := range back { back[i] = 0xEE }
				buf := back[:shape[0]]
				n, err := j.ReadAt(buf, off)
				if n > len(buf) { t.Logf("REPLAY-CONFIRMED ReadAt(buf len %d cap %d, off %d) on a %d-byte file reported %d bytes", len(buf), cap(buf), off, size, n); return }
				for i := len(buf); i < len(back); i++ {
					if back[i] != 0xEE { t.Logf("REPLAY-CONFIRMED ReadAt(buf len %d cap %d, off %d) wrote past the buffer's length (index %d)", len(buf), cap(buf), off, i); return }
				}
				if off >= int64(size) {
					if err != io.EOF || n != 0 { t.Logf("REPLAY-CONFIRMED ReadAt at/after the end (off %d, size %d) gave n=%d err=%v", off, size, n, err); return }
					continue
				}
				want := len(buf)
				if rem := size - int(off); rem < want { want = rem }
				if err == io.EOF { t.Logf("REPLAY-CONFIRMED ReadAt(len %d, off %d) on a %d-byte file reported end-of-file before the end", len(buf), off, size); return }
				if err != nil { continue }
				if n != want || !bytes.Equal(buf[:n], content[off:int(off)+n]) {
					t.Logf("REPLAY-CONFIRMED ReadAt(len %d, off %d) on a %d-byte file: n=%d (want %d) or wrong content", len(buf), off, size, n, want); return
				}
			}
		}
		// sequential reads
		j2, _, _ := joiner.New(ctx, st, storage.ModeGetLookup, addr)
		var got []byte
		chunk := make([]byte, 37)
		for {
			n, err := j2.Read(chunk)
			got = append(got, chunk[:n]...)
			if err == io.EOF { break }
			if err != nil || n == 0 { break }
			if len(got) > size+100 { break }
		}
		if !bytes.Equal(got, content) { t.Logf("REPLAY-CONFIRMED sequential reads returned %d bytes that differ from the %d-byte content", len(got), size); return }
		// a read cut short by the end of the file, then a seek relative to the current position
		if size >= 2 {
			j4, _, _ := joiner.New(ctx, st, storage.ModeGetLookup, addr)
			_, _ = j4.Seek(int64(size)/2, 0)
			big := make([]byte, size) // longer than what is left
			n, _ := j4.Read(big)
			here := int64(size)/2 + int64(n)
			pos, err := j4.Seek(0, 1)
			if err != nil || pos != here {
				t.Logf("REPLAY-CONFIRMED after Seek(%d), a Read into a %d-byte buffer that returned %d bytes, Seek(0, current) on a %d-byte file answers %d, %v; the position is %d", size/2, len(big), n, size, pos, err, here); return
			}
			if here >= 1 {
				if pos, err := j4.Seek(-1, 1); err != nil || pos != here-1 {
					t.Logf("REPLAY-CONFIRMED after a short read ending at %d, Seek(-1, current) answers %d, %v", here, pos, err); return
				}
			}
		}
		// seek
		type sk struct{ off int64; whence int }
		for _, s := range []sk{{0, 0}, {int64(size), 0}, {int64(size) + 1, 0}, {-1, 0}, {3, 1}, {-2, 1}, {0, 2}, {1, 2}, {int64(size), 2}, {int64(size) + 1, 2}, {0, 3}} {
			j3, _, _ := joiner.New(ctx, st, storage.ModeGetLookup, addr)
			cur := int64(0)
			if size > 4 { _, _ = j3.Seek(2, 0); cur = 2 }
			pos, err := j3.Seek(s.off, s.whence)
			var want int64
			switch s.whence {
			case 0: want = s.off
			case 1: want = cur + s.off
			case 2: want = int64(size) - s.off
			default: want = -1
			}
			valid := s.whence >= 0 && s.whence <= 2 && want >= 0 && want <= int64(size)
			if err == nil && (!valid || pos != want) { t.Logf("REPLAY-CONFIRMED Seek(%d, %d) on a %d-byte file landed on %d (requested %d, valid=%v)", s.off, s.whence, size, pos, want, valid); return }
			if err != nil && valid { t.Logf("REPLAY-CONFIRMED Seek(%d, %d) on a %d-byte file failed: %v", s.off, s.whence, size, err); return }
			if err == nil {
				one := make([]byte, 1)
				n, _ := j3.Read(one)
				if want < int64(size) && (n != 1 || one[0] != content[want]) { t.Logf("REPLAY-CONFIRMED after Seek to %d the next byte read is not content[%d]", want, want); return }
			}
		}
	}
	t.Logf("not reproduced")
}
'''

def build(unit, obl, vals):
    return {"pkg": "pkg/file/joiner", "pkgname": "joiner_test", "test": TEST}

"""Replay for C29: a real requester node asks a real responder (real kademlia, address book
and hive2 service over the stream recorder) for peers; the pb.Peers reply written to the
stream is decoded and checked against the request: not more than min(max(limit,0),30)
peers, never the requester, no repeats, only requested proximity orders, no private
underlay for a public requester.  Battery over limits 0..40, targets equal to / different
from the requester, private and public underlays."""

TEST = '''package hive2_test

import (
	"bytes"
	"context"
	"testing"

	"github.com/gauss-project/aurorafs/pkg/boson"
	"github.com/gauss-project/aurorafs/pkg/boson/test"
	"github.com/gauss-project/aurorafs/pkg/hive2/pb"
	"github.com/gauss-project/aurorafs/pkg/p2p/protobuf"
	ma "github.com/multiformats/go-multiaddr"
	manet "github.com/multiformats/go-multiaddr/net"
)

func TestVerifReplay(t *testing.T) {
	ctx := context.Background()
	const k = 3
	for _, publicRequester := range []bool{false, true} {
		for _, limit := range []int32{0, 1, 2, 3, 5, 10, 30, 40, -1} {
			for _, targetIsRequester := range []bool{false, true} {
				ua := randomUnderlay(123)
				if publicRequester { ua = randomUnderlayPublic(123) }
				a := newTestNode(t, test.RandomAddress(), -1, ua, false)
				b := newTestNode(t, test.RandomAddress(), -1, randomUnderlay(124), false)
				a.addOne(t, b.addr, true)
				b.addOne(t, a.addr, true)
				a.stream.SetProtocols(b.Protocol())
				b.stream.SetProtocols(a.Protocol())
				target := a.overlay
				pos := []int32{k}
				if !targetIsRequester {
					target = test.RandomAddressAt(a.overlay, k)
				} else {
					pos = []int32{k, int32(boson.MaxPO)}
				}
				b.connectMore(t, target, k, 4, 300)        // private underlays
				b.connectMorePublic(t, target, k, 4, 400)  // public underlays
				// some known but unconnected peers at the requested order
				for i := 0; i < 3; i++ {
					p, _ := randomAddress(t, target, k, randomUnderlayPublic(500+i))
					b.addOne(t, p, false)
					b.kad.AddPeers(p.Overlay)
				}
				res, err := a.DoFindNode(ctx, target, b.overlay, pos, limit)
				if err != nil { t.Logf("not reproduced: %v", err); return }
				go func() { for range res {} }()
				records, err := a.stream.Records(b.overlay, "hive2", "1.0.0", "findNode")
				if err != nil || len(records) != 1 { t.Logf("not reproduced: records %v %d", err, len(records)); return }
				msgs, err := protobuf.ReadMessages(bytes.NewReader(records[0].Out()), func() protobuf.Message { return new(pb.Peers) })
				if err != nil || len(msgs) != 1 { t.Logf("not reproduced: messages %v %d", err, len(msgs)); return }
				reply := msgs[0].(*pb.Peers)
				want := int(limit)
				if want < 0 { want = 0 }
				if want > 30 { want = 30 }
				if len(reply.Peers) > want {
					t.Logf("REPLAY-CONFIRMED request with limit %d answered with %d peers (at most %d may be returned)", limit, len(reply.Peers), want); return
				}
				seen := map[string]bool{}
				for _, p := range reply.Peers {
					o := boson.NewAddress(p.Overlay)
					if o.Equal(a.overlay) {
						t.Logf("REPLAY-CONFIRMED reply (limit %d, target is requester: %v) contains the requester %s", limit, targetIsRequester, o); return
					}
					if seen[o.String()] {
						t.Logf("REPLAY-CONFIRMED reply (limit %d) repeats peer %s", limit, o); return
					}
					seen[o.String()] = true
					po := int32(boson.Proximity(target.Bytes(), o.Bytes()))
					ok := false
					for _, q := range pos { if q == po { ok = true } }
					if !ok {
						t.Logf("REPLAY-CONFIRMED reply contains peer %s at proximity %d to the target, requested orders %v", o, po, pos); return
					}
					u, err := ma.NewMultiaddrBytes(p.Underlay)
					if err == nil && publicRequester && manet.IsPrivateAddr(u) {
						t.Logf("REPLAY-CONFIRMED reply to a requester with a public address offers the private underlay %s", u); return
					}
				}
			}
		}
	}
	t.Logf("not reproduced")
}
'''


def build(unit, obl, vals):
    return {"pkg": "pkg/hive2", "pkgname": "hive2_test", "test": TEST, "tags": "leveldb", "mask_all_tests": False}

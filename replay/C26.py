"""Replay for C26: the real Blocker (background goroutines quiescent: long wake-up,
sequence set by hand) against the statement: blocklisting only after the flag
timeout on the availability clock, not after unflag/prune, once per flag period,
re-flagging does not restart or shorten the period, no flagging while offline."""

TEST = '''package blocker

import (
	"io"
	"testing"
	"time"

	"github.com/gauss-project/aurorafs/pkg/boson"
	"github.com/gauss-project/aurorafs/pkg/logging"
	"github.com/gauss-project/aurorafs/pkg/p2p"
)

type verifBL struct {
	status  p2p.NetworkStatus
	blocked []string
}

func (b *verifBL) NetworkStatus() p2p.NetworkStatus { return b.status }
func (b *verifBL) Blocklist(o boson.Address, d time.Duration, r string) error {
	b.blocked = append(b.blocked, o.String()); return nil
}

func TestVerifReplay(t *testing.T) {
	a1 := boson.MustParseHexAddress("aa00000000000000000000000000000000000000000000000000000000000000")
	a2 := boson.MustParseHexAddress("bb00000000000000000000000000000000000000000000000000000000000000")
	mk := func() (*Blocker, *verifBL) {
		bl := &verifBL{status: p2p.NetworkStatusAvailable}
		b := New(bl, 5*time.Second, time.Minute, time.Hour, nil, logging.New(io.Discard, 0))
		return b, bl
	}
	count := func(bl *verifBL, a boson.Address) int { n := 0; for _, s := range bl.blocked { if s == a.String() { n++ } }; return n }
	fail := func(f string, args ...interface{}) { t.Logf("REPLAY-CONFIRMED "+f, args...) }

	// flag at tick 10 with timeout 5 ticks: not blocked up to tick 15, blocked at 16, exactly once
	b, bl := mk(); defer b.Close()
	b.sequence.Store(10); b.Flag(a1)
	for _, tick := range []uint64{10, 12, 15} {
		b.sequence.Store(tick); b.block()
		if count(bl, a1) != 0 { fail("blocklisted at tick %d although flagged at 10 with a 5-tick timeout", tick); return }
	}
	b.sequence.Store(16); b.block(); b.block(); b.sequence.Store(40); b.block()
	if count(bl, a1) != 1 { fail("one flag period led to %d blocklistings", count(bl, a1)); return }

	// re-flagging neither restarts nor shortens the period
	b2, bl2 := mk(); defer b2.Close()
	b2.sequence.Store(10); b2.Flag(a1); b2.sequence.Store(14); b2.Flag(a1)
	b2.sequence.Store(16); b2.block()
	if count(bl2, a1) != 1 { fail("re-flag at tick 14 restarted the period (not blocklisted at 16)"); return }
	b2.sequence.Store(100); b2.Flag(a2); b2.Flag(a2); b2.sequence.Store(103); b2.block()
	if count(bl2, a2) != 0 { fail("re-flag shortened the period"); return }

	// unflag / prune forget the peer
	b3, bl3 := mk(); defer b3.Close()
	b3.sequence.Store(1); b3.Flag(a1); b3.Flag(a2); b3.Unflag(a1); b3.PruneUnseen([]boson.Address{a1})
	b3.sequence.Store(50); b3.block()
	if len(bl3.blocked) != 0 { fail("peer blocklisted although it was unflagged / pruned: %v", bl3.blocked); return }

	// no flag while the network is unavailable
	b4, bl4 := mk(); defer b4.Close()
	bl4.status = p2p.NetworkStatusUnavailable
	b4.sequence.Store(1); b4.Flag(a1)
	bl4.status = p2p.NetworkStatusAvailable
	b4.sequence.Store(50); b4.block()
	if len(bl4.blocked) != 0 { fail("peer flagged while the network was unavailable was blocklisted"); return }

	// a success reported while the network is down still clears the flag
	b6, bl6 := mk(); defer b6.Close()
	b6.sequence.Store(1); b6.Flag(a1)
	bl6.status = p2p.NetworkStatusUnavailable
	b6.Unflag(a1)
	bl6.status = p2p.NetworkStatusAvailable
	b6.sequence.Store(50); b6.block()
	if len(bl6.blocked) != 0 { fail("a peer that succeeded (Unflag during a network outage) since it was flagged was blocklisted"); return }

	// the clock counts only ticks at which the network answered "available"
	saved := sequencerResolution
	sequencerResolution = time.Millisecond
	defer func() { sequencerResolution = saved }()
	for _, status := range []p2p.NetworkStatus{p2p.NetworkStatusUnknown, p2p.NetworkStatusUnavailable} {
		bl5 := &verifBL{status: status}
		b5 := New(bl5, 100*time.Millisecond, time.Minute, time.Hour, nil, logging.New(io.Discard, 0))
		before := b5.sequence.Load()
		time.Sleep(120 * time.Millisecond)
		after := b5.sequence.Load()
		b5.Close()
		if after != before { fail("the clock advanced from %d to %d while the network status was %d (not available)", before, after, status); return }
	}
	t.Logf("not reproduced")
}
'''

def build(unit, obl, vals):
    return {"pkg": "pkg/blocker", "test": TEST}

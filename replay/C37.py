"""Replay for C37: per protocol, a battery of well-framed protobuf messages with missing, empty,
oversized or inconsistent fields is sent to the real handler / client read of the package the
failed obligation lives in; a panic (recovered in the test, with its message) confirms."""

HANDSHAKE = '''package handshake_test

import (
	"bytes"
	"context"
	"fmt"
	"io"
	"testing"

	"github.com/gauss-project/aurorafs/pkg/aurora"
	"github.com/gauss-project/aurorafs/pkg/crypto"
	"github.com/gauss-project/aurorafs/pkg/logging"
	"github.com/gauss-project/aurorafs/pkg/p2p"
	"github.com/gauss-project/aurorafs/pkg/p2p/libp2p/internal/handshake"
	"github.com/gauss-project/aurorafs/pkg/p2p/libp2p/internal/handshake/mock"
	"github.com/gauss-project/aurorafs/pkg/p2p/libp2p/internal/handshake/pb"
	"github.com/gauss-project/aurorafs/pkg/p2p/protobuf"
	"github.com/gauss-project/aurorafs/pkg/topology/lightnode"

	libp2ppeer "github.com/libp2p/go-libp2p-core/peer"
	ma "github.com/multiformats/go-multiaddr"
)

type verifResolver struct{}

func (verifResolver) Resolve(o ma.Multiaddr) (ma.Multiaddr, error) { return o, nil }

// every real node installs a picker (the topology driver); without one the compiler may drop
// loads whose only use is the picker call
type verifPicker struct{}

func (verifPicker) Pick(p2p.Peer) bool { return true }

func TestVerifReplay(t *testing.T) {
	logger := logging.New(io.Discard, 0)
	networkID := uint64(3)
	node1ma, _ := ma.NewMultiaddr("/ip4/127.0.0.1/tcp/1634/p2p/16Uiu2HAkx8ULY8cTXhdVAcMmLcH9AsTKz6uBQ7DPLKRjMLgBVYkA")
	node2ma, _ := ma.NewMultiaddr("/ip4/127.0.0.1/tcp/1634/p2p/16Uiu2HAkx8ULY8cTXhdVAcMmLcH9AsTKz6uBQ7DPLKRjMLgBVYkS")
	node1maBinary, _ := node1ma.MarshalBinary()
	node2maBinary, _ := node2ma.MarshalBinary()
	node1AddrInfo, _ := libp2ppeer.AddrInfoFromP2pAddr(node1ma)
	node2AddrInfo, _ := libp2ppeer.AddrInfoFromP2pAddr(node2ma)
	k1, _ := crypto.GenerateSecp256k1Key()
	k2, _ := crypto.GenerateSecp256k1Key()
	signer1 := crypto.NewDefaultSigner(k1)
	signer2 := crypto.NewDefaultSigner(k2)
	o1, _ := crypto.NewOverlayAddress(k1.PublicKey, networkID)
	o2, _ := crypto.NewOverlayAddress(k2.PublicKey, networkID)
	a2, err := aurora.NewAddress(signer2, node2ma, o2, networkID)
	if err != nil { t.Fatal(err) }
	light := lightnode.NewContainer(o1)
	svc, err := handshake.New(signer1, verifResolver{}, o1, networkID, aurora.NewModel().SetMode(aurora.FullNode), "hi", node1AddrInfo.ID, logger, light, lightnode.DefaultLightNodeLimit)
	if err != nil { t.Fatal(err) }
	svc.SetPicker(verifPicker{})
	goodAddr := &pb.BzzAddress{Underlay: node2maBinary, Overlay: a2.Overlay.Bytes(), Signature: a2.Signature}
	mode := []byte{1}
	big := bytes.Repeat([]byte{0xff}, 70000)

	guard := func(what string, f func()) (hit bool) {
		defer func() {
			if r := recover(); r != nil {
				t.Logf("REPLAY-CONFIRMED %s: the node panics: %v", what, r)
				hit = true
			}
		}()
		f()
		return false
	}

	// dialer side: the peer answers our Syn with a SynAck
	synacks := map[string]*pb.SynAck{
		"SynAck without Syn":               {Ack: &pb.Ack{Address: goodAddr, NetworkID: networkID, NodeMode: mode}},
		"SynAck without Ack":               {Syn: &pb.Syn{ObservedUnderlay: node1maBinary}},
		"empty SynAck":                     {},
		"SynAck whose Ack has no Address":  {Syn: &pb.Syn{ObservedUnderlay: node1maBinary}, Ack: &pb.Ack{NetworkID: networkID, NodeMode: mode}},
		"SynAck with empty Address fields": {Syn: &pb.Syn{ObservedUnderlay: node1maBinary}, Ack: &pb.Ack{Address: &pb.BzzAddress{}, NetworkID: networkID, NodeMode: mode}},
		"SynAck with empty node mode":      {Syn: &pb.Syn{ObservedUnderlay: node1maBinary}, Ack: &pb.Ack{Address: goodAddr, NetworkID: networkID}},
		"SynAck with oversized fields":     {Syn: &pb.Syn{ObservedUnderlay: big}, Ack: &pb.Ack{Address: &pb.BzzAddress{Underlay: big, Overlay: big, Signature: big}, NetworkID: networkID, NodeMode: big}},
	}
	for what, m := range synacks {
		var b1, b2 bytes.Buffer
		s1 := mock.NewStream(&b1, &b2)
		s2 := mock.NewStream(&b2, &b1)
		w, _ := protobuf.NewWriterAndReader(s2)
		if err := w.WriteMsg(m); err != nil { t.Fatal(err) }
		if guard(fmt.Sprintf("Handshake, peer answers with a %s", what), func() { _, _ = svc.Handshake(context.Background(), s1, node2AddrInfo.Addrs[0], node2AddrInfo.ID) }) { return }
	}
	// listener side: the peer sends Syn, then Ack
	type in struct { syn *pb.Syn; ack *pb.Ack }
	ins := map[string]in{
		"Ack without Address":          {&pb.Syn{ObservedUnderlay: node1maBinary}, &pb.Ack{NetworkID: networkID, NodeMode: mode}},
		"empty Ack":                    {&pb.Syn{ObservedUnderlay: node1maBinary}, &pb.Ack{}},
		"Ack with empty Address":       {&pb.Syn{ObservedUnderlay: node1maBinary}, &pb.Ack{Address: &pb.BzzAddress{}, NetworkID: networkID, NodeMode: mode}},
		"Ack with empty node mode":     {&pb.Syn{ObservedUnderlay: node1maBinary}, &pb.Ack{Address: goodAddr, NetworkID: networkID}},
		"empty Syn":                    {&pb.Syn{}, &pb.Ack{Address: goodAddr, NetworkID: networkID, NodeMode: mode}},
		"oversized Syn and Ack fields": {&pb.Syn{ObservedUnderlay: big}, &pb.Ack{Address: &pb.BzzAddress{Underlay: big, Overlay: big, Signature: big}, NetworkID: networkID, NodeMode: big}},
	}
	for what, m := range ins {
		var b1, b2 bytes.Buffer
		s1 := mock.NewStream(&b1, &b2)
		s2 := mock.NewStream(&b2, &b1)
		w, _ := protobuf.NewWriterAndReader(s2)
		if err := w.WriteMsg(m.syn); err != nil { t.Fatal(err) }
		if err := w.WriteMsg(m.ack); err != nil { t.Fatal(err) }
		if guard(fmt.Sprintf("Handle, peer sends %s", what), func() { _, _ = svc.Handle(context.Background(), s1, node2AddrInfo.Addrs[0], node2AddrInfo.ID) }) { return }
	}
	t.Logf("not reproduced")
}
'''

# a stream preloaded with the peer's messages; what the node writes is discarded
STREAM = '''
type verifStream struct{ in *bytes.Buffer }

func (s *verifStream) Read(p []byte) (int, error)     { return s.in.Read(p) }
func (s *verifStream) Write(p []byte) (int, error)    { return len(p), nil }
func (s *verifStream) Close() error                   { return nil }
func (s *verifStream) FullClose() error               { return nil }
func (s *verifStream) Reset() error                   { return nil }
func (s *verifStream) Headers() p2p.Headers           { return nil }
func (s *verifStream) ResponseHeaders() p2p.Headers   { return nil }

func verifStreamOf(t *testing.T, msgs ...protobuf.Message) *verifStream {
	var b bytes.Buffer
	w := protobuf.NewWriter(verifNop{&b})
	for _, m := range msgs {
		if err := w.WriteMsg(m); err != nil { t.Fatal(err) }
	}
	return &verifStream{in: &b}
}

type verifNop struct{ *bytes.Buffer }

func (verifNop) Close() error { return nil }

func verifGuard(t *testing.T, what string, f func()) (hit bool) {
	defer func() {
		if r := recover(); r != nil {
			t.Logf("REPLAY-CONFIRMED %s: the node panics: %v", what, r)
			hit = true
		}
	}()
	f()
	return false
}

func verifHandler(t *testing.T, spec p2p.ProtocolSpec, name string) p2p.HandlerFunc {
	for _, s := range spec.StreamSpecs {
		if s.Name == name { return s.Handler }
	}
	t.Fatalf("no stream %s", name)
	return nil
}
'''

TRAFFIC = '''package traffic

import (
	"bytes"
	"context"
	"encoding/base64"
	"encoding/json"
	"errors"
	"io"
	"math/big"
	"testing"

	"github.com/ethereum/go-ethereum/common"
	"github.com/ethereum/go-ethereum/core/types"
	"github.com/gauss-project/aurorafs/pkg/boson"
	"github.com/gauss-project/aurorafs/pkg/logging"
	"github.com/gauss-project/aurorafs/pkg/p2p"
	"github.com/gauss-project/aurorafs/pkg/p2p/protobuf"
	chequePkg "github.com/gauss-project/aurorafs/pkg/settlement/traffic/cheque"
	"github.com/gauss-project/aurorafs/pkg/settlement/traffic/trafficprotocol"
	"github.com/gauss-project/aurorafs/pkg/settlement/traffic/trafficprotocol/pb"
	"github.com/gauss-project/aurorafs/pkg/statestore/mock"
	"github.com/gauss-project/aurorafs/pkg/subscribe"
)
''' + STREAM + '''
type verifBook struct{ m map[string]common.Address }

func (b *verifBook) Beneficiary(p boson.Address) (common.Address, bool) { a, ok := b.m[p.String()]; return a, ok }
func (b *verifBook) BeneficiaryPeer(common.Address) (boson.Address, bool) { return boson.ZeroAddress, false }
func (b *verifBook) PutBeneficiary(boson.Address, common.Address) error  { return nil }
func (b *verifBook) InitAddressBook() error                               { return nil }

type verifChain struct{}

func (verifChain) BalanceOf(common.Address) (*big.Int, error) { return big.NewInt(0), nil }
func (verifChain) RetrievedAddress(common.Address) ([]common.Address, error) { return nil, nil }
func (verifChain) TransferredAddress(common.Address) ([]common.Address, error) { return nil, nil }
func (verifChain) RetrievedTotal(common.Address) (*big.Int, error) { return big.NewInt(0), nil }
func (verifChain) TransferredTotal(common.Address) (*big.Int, error) { return big.NewInt(0), nil }
func (verifChain) TransAmount(common.Address, common.Address) (*big.Int, error) { return big.NewInt(0), nil }
func (verifChain) CashChequeBeneficiary(context.Context, boson.Address, common.Address, common.Address, *big.Int, []byte) (*types.Transaction, error) { return nil, errors.New("no chain") }

func TestVerifReplay(t *testing.T) {
	self := common.HexToAddress("0x1000000000000000000000000000000000000001")
	issuerA := common.HexToAddress("0xa00000000000000000000000000000000000000a")
	peerA := boson.MustParseHexAddress("aa00000000000000000000000000000000000000000000000000000000000000")
	// the real signature recovery: the peer controls every byte of the cheque and of the signature
	recover := chequePkg.RecoverCheque
	sig65 := base64.StdEncoding.EncodeToString(append(bytes.Repeat([]byte{0x11}, 64), 0))
	st := mock.NewStateStore()
	svc := &Service{
		logger:              logging.New(io.Discard, 0),
		chainAddress:        self,
		store:               st,
		chequeStore:         chequePkg.NewChequeStore(st, self, recover, 1),
		addressBook:         &verifBook{m: map[string]common.Address{peerA.String(): issuerA}},
		trafficPeers:        TrafficPeer{trafficPeers: map[string]*Traffic{}, balance: big.NewInt(0), totalPaidOut: big.NewInt(0)},
		trafficChainService: verifChain{},
		subPub:              subscribe.NewSubPub(),
	}
	proto := trafficprotocol.New(nil, logging.New(io.Discard, 0), self)
	proto.SetTraffic(svc)
	spec := proto.Protocol()
	enc := func(v interface{}) []byte { b, _ := json.Marshal(v); return b }
	cheques := map[string][]byte{
		"the JSON text null as cheque":            []byte("null"),
		"an empty cheque object":                  []byte("{}"),
		"a cheque without cumulative payout":      enc(map[string]interface{}{"Recipient": self, "Beneficiary": issuerA, "Signature": append(bytes.Repeat([]byte{0x11}, 64), 0)}),
		"a cheque with null cumulative payout":    []byte(`{"Recipient":"0x1000000000000000000000000000000000000001","Beneficiary":"0xa00000000000000000000000000000000000000a","CumulativePayout":null,"Signature":"` + sig65 + `"}`),
		"a cheque with a huge cumulative payout":  []byte(`{"Recipient":"0x1000000000000000000000000000000000000001","Beneficiary":"0xa00000000000000000000000000000000000000a","CumulativePayout":1` + string(bytes.Repeat([]byte("0"), 5000)) + `,"Signature":"` + sig65 + `"}`),
		"no cheque bytes at all":                  nil,
		"bytes that are not JSON":                 {0xff, 0x00, 0x7b},
	}
	for _, stream := range []string{"traffic", "init"} {
		h := verifHandler(t, spec, stream)
		for what, c := range cheques {
			for _, addr := range [][]byte{self.Bytes(), nil, bytes.Repeat([]byte{9}, 300)} {
				s := verifStreamOf(t, &pb.EmitCheque{Address: addr, SignedCheque: c})
				if verifGuard(t, "stream "+stream+", registered peer sends "+what, func() { _ = h(context.Background(), p2p.Peer{Address: peerA}, s) }) { return }
			}
		}
	}
	t.Logf("not reproduced")
}
'''

CHUNKINFO = '''package chunkinfo_test

import (
	"bytes"
	"context"
	"io"
	"testing"
	"time"

	"github.com/gauss-project/aurorafs/pkg/boson"
	"github.com/gauss-project/aurorafs/pkg/chunkinfo"
	"github.com/gauss-project/aurorafs/pkg/chunkinfo/pb"
	"github.com/gauss-project/aurorafs/pkg/file/loadsave"
	"github.com/gauss-project/aurorafs/pkg/file/pipeline"
	"github.com/gauss-project/aurorafs/pkg/file/pipeline/builder"
	"github.com/gauss-project/aurorafs/pkg/logging"
	"github.com/gauss-project/aurorafs/pkg/manifest"
	"github.com/gauss-project/aurorafs/pkg/p2p"
	"github.com/gauss-project/aurorafs/pkg/p2p/protobuf"
	"github.com/gauss-project/aurorafs/pkg/p2p/streamtest"
	rmock "github.com/gauss-project/aurorafs/pkg/routetab/mock"
	omock "github.com/gauss-project/aurorafs/pkg/settlement/chain/oracle/mock"
	smock "github.com/gauss-project/aurorafs/pkg/statestore/mock"
	"github.com/gauss-project/aurorafs/pkg/storage"
	"github.com/gauss-project/aurorafs/pkg/storage/mock"
	"github.com/gauss-project/aurorafs/pkg/subscribe"
	"github.com/gauss-project/aurorafs/pkg/traversal"
)
''' + STREAM + '''
func verifUpload(t *testing.T, ctx context.Context, store storage.Storer, data []byte) boson.Address {
	t.Helper()
	fr, err := builder.FeedPipeline(ctx, builder.NewPipelineBuilder(ctx, store, storage.ModePutUpload, false), bytes.NewReader(data))
	if err != nil { t.Fatal(err) }
	ls := loadsave.New(store, func() pipeline.Interface { return builder.NewPipelineBuilder(ctx, store, storage.ModePutRequest, false) })
	m, err := manifest.NewDefaultManifest(ls, false)
	if err != nil { t.Fatal(err) }
	name := "f.bin"
	if err := m.Add(ctx, "/", manifest.NewEntry(boson.ZeroAddress, map[string]string{manifest.WebsiteIndexDocumentSuffixKey: name, manifest.EntryMetadataDirnameKey: name})); err != nil { t.Fatal(err) }
	if err := m.Add(ctx, name, manifest.NewEntry(fr, map[string]string{manifest.EntryMetadataFilenameKey: name, manifest.EntryMetadataContentTypeKey: "application/octet-stream"})); err != nil { t.Fatal(err) }
	root, err := m.Store(ctx)
	if err != nil { t.Fatal(err) }
	return root
}

// The discovery worker goroutines run outside the test goroutine: a panic there ends the test
// binary with the Go runtime's "panic:" report, which the replay driver also takes as confirmation.
func TestVerifReplay(t *testing.T) {
	ctx := context.Background()
	self := boson.MustParseHexAddress("01")
	peerX := boson.MustParseHexAddress("aa00000000000000000000000000000000000000000000000000000000000000")
	peerY := boson.MustParseHexAddress("bb00000000000000000000000000000000000000000000000000000000000000")
	store := mock.NewStorer()
	var data []byte
	for _, c := range "abcdefghijkl" { data = append(data, bytes.Repeat([]byte{byte(c)}, boson.ChunkSize)...) } // 12 data chunks: vectors need 2 bytes
	root := verifUpload(t, ctx, store, data)
	route := rmock.NewMockRouteTable()
	ci := chunkinfo.New(self, streamtest.New(streamtest.WithBaseAddr(self)), logging.New(io.Discard, 0), traversal.New(store),
		smock.NewStateStore(), store, &route, omock.NewServer(), nil, subscribe.NewSubPub())
	if err := ci.InitChunkInfo(); err != nil { t.Fatal(err) }
	spec := ci.Protocol()
	// the node knows the file (it has read a chunk of it) and is looking for more sources
	lists, _, err := traversal.New(store).GetChunkHashes(ctx, root, nil)
	if err != nil || len(lists) == 0 || len(lists[0]) == 0 { t.Fatalf("setup: %v", err) }
	if err := ci.OnChunkRetrieved(boson.NewAddress(lists[0][0]), root, self); err != nil { t.Fatalf("setup: %v", err) }
	fctx, cancel := context.WithTimeout(ctx, 3*time.Second)
	defer cancel()
	go ci.FindChunkInfo(fctx, nil, root, []boson.Address{peerX})
	time.Sleep(300 * time.Millisecond)

	resp := verifHandler(t, spec, "chunkinforesp")
	send := func(what string, m *pb.ChunkInfoResp) bool {
		hit := verifGuard(t, "chunk info response from a peer, "+what, func() { _ = resp(ctx, p2p.Peer{Address: peerX}, verifStreamOf(t, m)) })
		time.Sleep(200 * time.Millisecond) // let the discovery worker digest it
		if !hit {
			hit = verifGuard(t, "a later local source lookup after "+what, func() { _ = ci.GetChunkInfo(root, boson.NewAddress(lists[0][0])); _ = ci.GetChunkInfoDiscoverOverlays(root) })
		}
		return hit
	}
	cases := []struct{ what string; m *pb.ChunkInfoResp }{
		{"with a well formed vector", &pb.ChunkInfoResp{RootCid: root.Bytes(), Target: peerX.Bytes(), Req: self.Bytes(), Presence: map[string][]byte{peerX.String(): {0xff, 0x0f}}}},
		{"with an availability vector shorter than the file needs", &pb.ChunkInfoResp{RootCid: root.Bytes(), Target: peerY.Bytes(), Req: self.Bytes(), Presence: map[string][]byte{peerY.String(): {0xff}}}},
		{"with an empty availability vector", &pb.ChunkInfoResp{RootCid: root.Bytes(), Target: peerY.Bytes(), Req: self.Bytes(), Presence: map[string][]byte{peerY.String(): {}}}},
		{"with an oversized availability vector", &pb.ChunkInfoResp{RootCid: root.Bytes(), Target: peerY.Bytes(), Req: self.Bytes(), Presence: map[string][]byte{peerY.String(): bytes.Repeat([]byte{0xff}, 70000)}}},
		{"naming another peer by text that is not a hexadecimal address", &pb.ChunkInfoResp{RootCid: root.Bytes(), Target: peerX.Bytes(), Req: self.Bytes(), Presence: map[string][]byte{peerX.String(): {0xff, 0x0f}, "zz-not-an-address": {1}}}},
		{"naming another peer by the empty text", &pb.ChunkInfoResp{RootCid: root.Bytes(), Target: peerX.Bytes(), Req: self.Bytes(), Presence: map[string][]byte{"": {1}}}},
		{"without any field", &pb.ChunkInfoResp{Req: self.Bytes()}},
		{"for a file the node does not know", &pb.ChunkInfoResp{RootCid: bytes.Repeat([]byte{7}, 32), Target: peerX.Bytes(), Req: self.Bytes(), Presence: map[string][]byte{peerX.String(): {1}}}},
		{"with oversized addresses", &pb.ChunkInfoResp{RootCid: bytes.Repeat([]byte{7}, 5000), Target: bytes.Repeat([]byte{8}, 5000), Req: self.Bytes(), Presence: map[string][]byte{peerX.String(): {1}}}},
	}
	for _, c := range cases {
		if send(c.what, c.m) { return }
	}
	req := verifHandler(t, spec, "chunkinforeq")
	for what, m := range map[string]*pb.ChunkInfoReq{
		"an empty request":                 {},
		"a request for an unknown file":    {RootCid: bytes.Repeat([]byte{7}, 32), Target: self.Bytes(), Req: peerX.Bytes()},
		"a request with oversized fields":  {RootCid: bytes.Repeat([]byte{7}, 5000), Target: self.Bytes(), Req: bytes.Repeat([]byte{9}, 5000)},
		"a request for the known file":     {RootCid: root.Bytes(), Target: self.Bytes(), Req: peerX.Bytes()},
	} {
		if verifGuard(t, "chunk info request: "+what, func() { _ = req(ctx, p2p.Peer{Address: peerX}, verifStreamOf(t, m)) }) { return }
	}
	pyr := verifHandler(t, spec, "chunkpyramid")
	for what, m := range map[string]*pb.ChunkPyramidReq{
		"an empty request":                {},
		"a request for an unknown file":   {RootCid: bytes.Repeat([]byte{7}, 32), Target: self.Bytes()},
		"a request with oversized fields": {RootCid: bytes.Repeat([]byte{7}, 5000), Target: self.Bytes()},
		"a request for the known file":    {RootCid: root.Bytes(), Target: self.Bytes()},
	} {
		if verifGuard(t, "pyramid request: "+what, func() { _ = pyr(ctx, p2p.Peer{Address: peerX}, verifStreamOf(t, m)) }) { return }
	}
	t.Logf("not reproduced")
}
'''

ROUTETAB = '''package routetab_test

import (
	"bytes"
	"context"
	"fmt"
	"testing"

	"github.com/gauss-project/aurorafs/pkg/boson/test"
	"github.com/gauss-project/aurorafs/pkg/p2p"
	"github.com/gauss-project/aurorafs/pkg/p2p/protobuf"
	"github.com/gauss-project/aurorafs/pkg/routetab/pb"
)
''' + STREAM + '''
func TestVerifReplay(t *testing.T) {
	// node0 -- node1 ; the messages come from node1 and are served by node0
	nodes := createTopology(t, 2)
	server, remote := nodes[0], nodes[1]
	spec := server.Protocol()
	ctx := context.Background()
	big := bytes.Repeat([]byte{0xee}, 70000)
	goodPath := func() *pb.Path { return &pb.Path{Sign: []byte{1}, Bodys: [][]byte{{1}}, Items: [][]byte{remote.overlay.Bytes()}} }

	req := verifHandler(t, spec, "onRouteReq")
	for _, alpha := range []int32{0, 1, 2, 1000, -1, -2, -1 << 31} {
		m := &pb.RouteReq{Dest: test.RandomAddress().Bytes(), Alpha: alpha, Paths: []*pb.Path{goodPath()}}
		if verifGuard(t, fmt.Sprintf("route request for an unknown destination with Alpha=%d", alpha), func() { _ = req(ctx, remote.peer, verifStreamOf(t, m)) }) { return }
	}
	for what, m := range map[string]*pb.RouteReq{
		"an empty route request":                    {},
		"a route request without paths":             {Dest: test.RandomAddress().Bytes(), Alpha: 2},
		"a route request with an empty path":        {Dest: test.RandomAddress().Bytes(), Alpha: 2, Paths: []*pb.Path{{}}},
		"a route request with empty path items":     {Dest: test.RandomAddress().Bytes(), Alpha: 2, Paths: []*pb.Path{{Items: [][]byte{{}, {}}}}},
		"a route request with oversized fields":     {Dest: big, Alpha: 2, Paths: []*pb.Path{{Sign: big, Bodys: [][]byte{big}, Items: [][]byte{big, big}}}},
		"a route request with empty underlay records": {Dest: test.RandomAddress().Bytes(), Alpha: 2, Paths: []*pb.Path{goodPath()}, UType: 1, UList: []*pb.UnderlayResp{{}, {Dest: big, Underlay: big, Signature: big}}},
		"a route request for the node itself":       {Dest: server.overlay.Bytes(), Alpha: -5, Paths: []*pb.Path{goodPath()}, UType: 7},
		"a route request for the sender":            {Dest: remote.overlay.Bytes(), Alpha: -5, Paths: []*pb.Path{goodPath()}, UType: -1},
	} {
		if verifGuard(t, what, func() { _ = req(ctx, remote.peer, verifStreamOf(t, m)) }) { return }
	}
	resp := verifHandler(t, spec, "onRouteResp")
	for what, m := range map[string]*pb.RouteResp{
		"an empty route response":                     {},
		"a route response with an empty path":         {Dest: test.RandomAddress().Bytes(), Paths: []*pb.Path{{}}},
		"a route response with a one-hop path":        {Dest: test.RandomAddress().Bytes(), Paths: []*pb.Path{goodPath()}},
		"a route response with oversized fields":      {Dest: big, Paths: []*pb.Path{{Sign: big, Bodys: [][]byte{big}, Items: [][]byte{big, big, big}}}, UType: 1, UList: []*pb.UnderlayResp{{Dest: big, Underlay: big, Signature: big}}},
		"a route response with empty underlay records": {Dest: test.RandomAddress().Bytes(), Paths: []*pb.Path{{Items: [][]byte{test.RandomAddress().Bytes(), remote.overlay.Bytes()}}}, UType: 1, UList: []*pb.UnderlayResp{{}}},
	} {
		if verifGuard(t, what, func() { _ = resp(ctx, remote.peer, verifStreamOf(t, m)) }) { return }
	}
	und := verifHandler(t, spec, "onFindUnderlay")
	for what, m := range map[string]*pb.UnderlayReq{
		"an empty underlay request":     {},
		"an oversized underlay request": {Dest: big},
		"an underlay request for the sender": {Dest: remote.overlay.Bytes()},
	} {
		if verifGuard(t, what, func() { _ = und(ctx, remote.peer, verifStreamOf(t, m)) }) { return }
	}
	chain := verifHandler(t, spec, "relayConnChain")
	for what, m := range map[string]*pb.RouteRelayReq{
		"an empty relay request":                       {},
		"a relay request for the node with no mode":    {Dest: server.overlay.Bytes(), Src: remote.overlay.Bytes()},
		"a relay request with oversized fields":        {Dest: big, Src: big, SrcMode: big, ProtocolName: big, ProtocolVersion: big, StreamName: big, Paths: [][]byte{big, {}}},
	} {
		if verifGuard(t, what, func() { _ = chain(ctx, remote.peer, verifStreamOf(t, m)) }) { return }
	}
	t.Logf("not reproduced")
}
'''

PLANS = {
    "routetab": {"pkg": "pkg/routetab", "pkgname": "routetab_test", "test": ROUTETAB, "tags": "leveldb", "mask_all_tests": False, "confirm_on": ["panic: "]},
    "chunkinfo": {"pkg": "pkg/chunkinfo", "pkgname": "chunkinfo_test", "test": CHUNKINFO, "confirm_on": ["panic: "]},
    "handshake":{"pkg": "pkg/p2p/libp2p/internal/handshake", "pkgname": "handshake_test", "test": HANDSHAKE, "mask_all_tests": False},
    "trafficprotocol": {"pkg": "pkg/settlement/traffic", "pkgname": "traffic", "test": TRAFFIC},
}


def all_plans():
    """every battery (thorough tier runs them all, also when no obligation failed)"""
    return [dict(p) for p in PLANS.values()]


def build(unit, obl, vals):
    for key, plan in PLANS.items():
        if "/" + key + "." in unit or "/" + key + ")" in unit or key + "." in unit:
            return dict(plan)
    return dict(PLANS["handshake"])

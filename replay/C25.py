"""Replay for C25: drive the real Blocklist over the in-memory state store with
the model's prior entry (had / old duration), requested duration and a few clock
offsets, and check the statement's clauses in Go."""

TEST = '''package blocklist

import (
	"testing"
	"time"

	"github.com/gauss-project/aurorafs/pkg/boson"
	"github.com/gauss-project/aurorafs/pkg/statestore/mock"
)

func TestVerifReplay(t *testing.T) {
	addr := boson.MustParseHexAddress("aabbccddeeff00112233445566778899aabbccddeeff00112233445566778899")
	other := boson.MustParseHexAddress("1abbccddeeff00112233445566778899aabbccddeeff00112233445566778899")
	type cand struct { had bool; d0, dur time.Duration }
	// the verifier's model first, then a small grid around the clause (used when the solver gave no model)
	cands := []cand{{%(had)s, time.Duration(%(d0)d), time.Duration(%(dur)d)}}
	for _, h := range []bool{true, false} {
		for _, a := range []time.Duration{0, time.Minute, time.Hour} {
			for _, b := range []time.Duration{0, 30 * time.Second, time.Minute, 2 * time.Hour} {
				cands = append(cands, cand{h, a, b})
			}
		}
	}
	ts0 := time.Unix(1700000000, 0)
	defer func() { timeNow = time.Now }()
	for _, c := range cands {
	had, d0, dur := c.had, c.d0, c.dur
	deltas := []time.Duration{0, 1, time.Second, d0, d0 + 1, dur, dur + 1, 2*d0 + time.Hour}
	for _, delta := range deltas {
		if delta < 0 { continue }
		st := mock.NewStateStore()
		bl := NewBlocklist(st)
		_ = st.Put(generateKey(other), &entry{Timestamp: ts0, Duration: (5 * time.Minute).String()})
		if had {
			_ = st.Put(generateKey(addr), &entry{Timestamp: ts0, Duration: d0.String()})
		}
		now := ts0.Add(delta)
		timeNow = func() time.Time { return now }
		switch "%(op)s" {
		case "Add":
			if err := bl.Add(addr, dur); err != nil { continue }
			var e entry
			if err := st.Get(generateKey(addr), &e); err != nil {
				t.Logf("REPLAY-CONFIRMED Add succeeded but no entry is stored: %%v", err); return
			}
			nd, err := time.ParseDuration(e.Duration)
			if err != nil { t.Logf("REPLAY-CONFIRMED stored duration does not parse: %%v", err); return }
			bad := ""
			switch {
			case !e.Timestamp.Equal(now): bad = "timestamp is not the request time"
			case dur == 0 && nd != 0: bad = "zero duration did not block forever"
			case had && d0 == 0 && nd != 0: bad = "a forever block was shortened"
			case had && nd != 0 && nd < d0: bad = "existing block was shortened"
			case nd != 0 && nd < dur: bad = "requested period not covered"
			case nd != 0 && nd != dur && !(had && nd == d0): bad = "blocked longer than the longest requested duration"
			case nd == 0 && dur != 0 && !(had && d0 == 0): bad = "blocked forever although never requested"
			}
			var o entry
			if err := st.Get(generateKey(other), &o); err != nil || o.Duration != (5*time.Minute).String() || !o.Timestamp.Equal(ts0) {
				bad = "another overlay's entry changed"
			}
			if bad != "" {
				t.Logf("REPLAY-CONFIRMED Add(had=%%v old=%%v, request=%%v at +%%v) stored %%v: %%s", had, d0, dur, delta, nd, bad); return
			}
		case "Exists":
			got, err := bl.Exists(addr)
			if err != nil { continue }
			want := had && (d0 == 0 || delta <= d0)
			if got != want {
				t.Logf("REPLAY-CONFIRMED Exists(had=%%v dur=%%v at +%%v) = %%v, want %%v", had, d0, delta, got, want); return
			}
			var e entry
			stillThere := st.Get(generateKey(addr), &e) == nil
			if had && want && !stillThere {
				t.Logf("REPLAY-CONFIRMED Exists deleted an unexpired entry"); return
			}
			if ok, _ := bl.Exists(other); !ok { t.Logf("REPLAY-CONFIRMED Exists disturbed another overlay"); return }
		case "Remove":
			if err := bl.Remove(addr); err != nil { continue }
			if ok, _ := bl.Exists(addr); ok { t.Logf("REPLAY-CONFIRMED still blocked after Remove"); return }
			if ok, _ := bl.Exists(other); !ok { t.Logf("REPLAY-CONFIRMED Remove disturbed another overlay"); return }
		}
	}
	}
	t.Logf("not reproduced")
}
'''

def build(unit, obl, vals):
    op = None
    for o in ("Add", "Exists", "Remove"):
        if unit.endswith(")." + o):
            op = o
    if op is None:
        return None
    had = bool(vals.get("let.had", False))
    d0 = vals.get("let.d0", 0)
    dur = vals.get("duration", 0)
    if not isinstance(d0, int) or not isinstance(dur, int):
        return None
    lim = 1 << 61
    d0 = max(-lim, min(lim, d0)); dur = max(-lim, min(lim, dur))
    return {"pkg": "pkg/p2p/libp2p/internal/blocklist",
            "test": TEST % {"had": "true" if had else "false", "d0": d0, "dur": dur, "op": op}}

"""Replay for C13 (the part under contract: the per-chunk writers setPin / setUnpin): the real
localstore on LevelDB in a temporary directory.  Files are cached chunk by chunk under their root
(request puts with file context), then chunks are pinned and unpinned one per call under a root
context, in random order and including chunks pinned more often than the file has recorded
counts (a file with a repeated chunk is pinned through a traversal that visits the chunk twice).
The persisted cached-chunk counter must equal the sum of the recorded per-file counts read from the
index (in-package test: the startup repair only raises the counter, so a counter that is too high
is invisible to a reopen), and the value the store recomputes when it is reopened."""

TEST = '''package localstore

import (
	"context"
	"io"
	"math/rand"
	"testing"

	"github.com/gauss-project/aurorafs/pkg/boson"
	"github.com/gauss-project/aurorafs/pkg/logging"
	"github.com/gauss-project/aurorafs/pkg/sctx"
	"github.com/gauss-project/aurorafs/pkg/shed"
	"github.com/gauss-project/aurorafs/pkg/storage"
	chunktesting "github.com/gauss-project/aurorafs/pkg/storage/testing"
)

func verifOpen(t *testing.T, dir string, baseKey []byte) *DB {
	db, err := New(dir, baseKey, &Options{Driver: "leveldb", Capacity: 100000}, logging.New(io.Discard, 0))
	if err != nil { t.Fatal(err) }
	return db
}

func verifGCSize(t *testing.T, db *DB) int {
	m, err := db.DebugIndices()
	if err != nil { t.Fatal(err) }
	return m["gcSize"]
}

// the sum of the recorded per-file counts, read from the index itself (the startup repair only
// ever raises the counter, so a counter that is too high survives a reopen)
func verifRecorded(t *testing.T, db *DB) int {
	sum := 0
	err := db.gcIndex.Iterate(func(item shed.Item) (bool, error) {
		sum += int(item.GCounter)
		return false, nil
	}, nil)
	if err != nil { t.Fatal(err) }
	return sum
}

func TestVerifReplay(t *testing.T) {
	for seed := int64(1); seed <= 6; seed++ {
		rnd := rand.New(rand.NewSource(seed))
		dir := t.TempDir()
		baseKey := chunktesting.GenerateTestRandomChunk().Address().Bytes()
		db := verifOpen(t, dir, baseKey)
		type file struct{ root boson.Address; chunks []boson.Address }
		var files []file
		for f := 0; f < 3; f++ {
			chs := chunktesting.GenerateTestRandomChunks(2 + rnd.Intn(3))
			fl := file{root: chs[0].Address()}
			ctx := sctx.SetRootHash(context.Background(), fl.root)
			for _, ch := range chs {
				if _, err := db.Put(ctx, storage.ModePutRequest, ch); err != nil { t.Fatal(err) }
				fl.chunks = append(fl.chunks, ch.Address())
			}
			files = append(files, fl)
		}
		hist := ""
		pins := map[string]int{}
		// two chunks of a file with four recorded chunks pinned in ONE call: the second chunk
		// must see the decrement made for the first
		{
			chs := chunktesting.GenerateTestRandomChunks(4)
			root := chs[0].Address()
			ctx := sctx.SetRootHash(context.Background(), root)
			for _, ch := range chs {
				if _, err := db.Put(ctx, storage.ModePutRequest, ch); err != nil { t.Fatal(err) }
			}
			if err := db.Set(ctx, storage.ModeSetPin, chs[1].Address(), chs[2].Address()); err != nil { t.Fatal(err) }
			hist += " pin(two chunks of a four-chunk file in one call)"
		}
		for step := 0; step < 14; step++ {
			f := files[rnd.Intn(len(files))]
			c := f.chunks[rnd.Intn(len(f.chunks))]
			ctx := sctx.SetRootHash(context.Background(), f.root)
			if rnd.Intn(3) != 0 {
				if err := db.Set(ctx, storage.ModeSetPin, c); err != nil { t.Fatalf("%s pin: %v", hist, err) }
				pins[c.String()]++
				hist += " pin"
			} else if pins[c.String()] > 0 {
				if err := db.Set(ctx, storage.ModeSetUnpin, c); err != nil { t.Fatalf("%s unpin: %v", hist, err) }
				pins[c.String()]--
				hist += " unpin"
			}
		}
		before := verifGCSize(t, db)
		if rec := verifRecorded(t, db); before != rec {
			t.Logf("REPLAY-CONFIRMED after caching three files and%s (one chunk per call, under the file's root): the persisted cached-chunk counter is %d, the recorded per-file counts add up to %d", hist, before, rec)
			return
		}
		if err := db.Close(); err != nil { t.Fatal(err) }
		db = verifOpen(t, dir, baseKey)
		after := verifGCSize(t, db)
		_ = db.Close()
		if before != after {
			t.Logf("REPLAY-CONFIRMED after caching three files and%s (one chunk per call, under the file's root): the persisted cached-chunk counter is %d, the store recomputes %d from the recorded per-file counts when reopened", hist, before, after)
			return
		}
	}
	t.Logf("not reproduced")
}
'''


def build(unit, obl, vals):
    return {"pkg": "pkg/localstore", "pkgname": "localstore", "test": TEST, "tags": "leveldb"}

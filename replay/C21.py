"""Replay for C21: drive the real PSlice with operation sequences (single and
batch adds with internal duplicates, removes, re-adds) against a Go map used as
the reference set; any disagreement of Length/Exists/BinPeers confirms."""

TEST = '''package pslice

import (
	"testing"

	"github.com/gauss-project/aurorafs/pkg/boson"
)

func TestVerifReplay(t *testing.T) {
	base := boson.MustParseHexAddress("0000000000000000000000000000000000000000000000000000000000000000")
	mk := func(b0, b1 byte) boson.Address {
		raw := make([]byte, 32)
		raw[0], raw[31] = b0, b1
		return boson.NewAddress(raw)
	}
	// a few addresses in bin 0 (first bit set), bin 1, bin 7 and the last bin
	A := []boson.Address{mk(0x80, 1), mk(0x80, 2), mk(0xc0, 3), mk(0x40, 1), mk(0x40, 2), mk(0x01, 1), mk(0x00, 9), mk(0x00, 8)}
	type op struct {
		add  []int
		rem  int
	}
	seqs := [][]op{
		{{add: []int{0, 0}}},
		{{add: []int{0, 1, 0}}},
		{{add: []int{0}}, {add: []int{0}}},
		{{add: []int{0}}, {add: []int{1, 0, 1}}},
		{{add: []int{0, 1, 2, 3}}, {rem: 1}, {add: []int{1, 1}}},
		{{add: []int{0, 1, 2}}, {rem: 0}, {rem: 0}, {rem: 2}, {rem: 1}},
		{{add: []int{6, 7, 6}}, {rem: 6}, {add: []int{7}}},
		{{add: []int{3, 4}}, {rem: 3}, {add: []int{3, 4, 3}}, {rem: 4}},
		{{add: []int{0, 1, 2, 3, 4, 5, 6, 7}}, {rem: 5}, {rem: 2}, {add: []int{5, 2, 5, 2}}},
	}
	for si, ops := range seqs {
		for _, bins := range []int{int(boson.MaxBins), 1, 4} {
			s := New(bins, base)
			ref := map[string]bool{}
			for oi, o := range ops {
				if o.add != nil {
					var as []boson.Address
					for _, k := range o.add { as = append(as, A[k]); ref[A[k].String()] = true }
					s.Add(as...)
				} else {
					s.Remove(A[o.rem]); delete(ref, A[o.rem].String())
				}
				if s.Length() != len(ref) {
					t.Logf("REPLAY-CONFIRMED sequence %d (bins %d) after op %d: Length() = %d but the set holds %d peers", si, bins, oi, s.Length(), len(ref)); return
				}
				for k := range A {
					if s.Exists(A[k]) != ref[A[k].String()] {
						t.Logf("REPLAY-CONFIRMED sequence %d (bins %d) after op %d: Exists(%d) = %v, set says %v", si, bins, oi, k, s.Exists(A[k]), ref[A[k].String()]); return
					}
				}
				seen := map[string]bool{}
				for b := 0; b < bins; b++ {
					for _, p := range s.BinPeers(uint8(b)) {
						if seen[p.String()] { t.Logf("REPLAY-CONFIRMED sequence %d: peer listed twice", si); return }
						seen[p.String()] = true
					}
				}
			}
		}
	}
	// iteration takes a snapshot of each bin: updates made by the callback must not
	// make one pass yield a peer twice
	for name, iter := range map[string]func(*PSlice, func(boson.Address, uint8) (bool, bool, error)) error{
		"EachBin":    func(s *PSlice, f func(boson.Address, uint8) (bool, bool, error)) error { return s.EachBin(f) },
		"EachBinRev": func(s *PSlice, f func(boson.Address, uint8) (bool, bool, error)) error { return s.EachBinRev(f) },
	} {
		for _, trio := range [][3]int{{0, 1, 2}, {3, 4, 3}} {
			if trio[0] == trio[2] { continue }
			s := New(int(boson.MaxBins), base)
			s.Add(A[trio[0]]); s.Add(A[trio[1]]); s.Add(A[trio[2]])
			bin := s.BinPeers(0)
			if len(bin) != 3 { bin = s.BinPeers(1) }
			if len(bin) != 3 { continue }
			first := true
			seen := map[string]int{}
			_ = iter(s, func(p boson.Address, _ uint8) (bool, bool, error) {
				seen[p.String()]++
				if first {
					first = false
					s.Remove(bin[2]); s.Remove(bin[1]); s.Add(bin[2])
				}
				return false, false, nil
			})
			for k, n := range seen {
				if n > 1 { t.Logf("REPLAY-CONFIRMED %s: one pass yielded peer %s %d times after remove/remove/add inside the callback", name, k[:8], n); return }
			}
		}
	}
	t.Logf("not reproduced")
}
'''

def build(unit, obl, vals):
    return {"pkg": "pkg/topology/pslice", "test": TEST}

"""Replay for C15: the real pinning service over the real localstore (leveldb build, in-memory)
and the real traversal.  Three uploaded references with overlapping content - A = x,y and
B = x,z share chunk x, C = r,r,r repeats one chunk - and random histories of pin / unpin on
them (repeats included, which is what the statement's idempotence clauses are about).  After
every step: a reference is listed (HasPin, Pins) iff the last operation on it was a pin, and a
chunk is pinned (ModeHasPin) iff some listed reference contains it - i.e. every unpin gave back
exactly what its pin took, and repeated pins / unpins changed nothing."""

TEST = '''package pinning_test

import (
	"bytes"
	"context"
	"io"
	"math/rand"
	"testing"

	"github.com/gauss-project/aurorafs/pkg/boson"
	"github.com/gauss-project/aurorafs/pkg/file/pipeline/builder"
	"github.com/gauss-project/aurorafs/pkg/localstore"
	"github.com/gauss-project/aurorafs/pkg/logging"
	"github.com/gauss-project/aurorafs/pkg/pinning"
	statestorem "github.com/gauss-project/aurorafs/pkg/statestore/mock"
	"github.com/gauss-project/aurorafs/pkg/storage"
	"github.com/gauss-project/aurorafs/pkg/traversal"
)

func verifBlock(b byte) []byte { return bytes.Repeat([]byte{b}, boson.ChunkSize) }

func TestVerifReplay(t *testing.T) {
	ctx := context.Background()
	for seed := int64(1); seed <= 4; seed++ {
		rng := rand.New(rand.NewSource(seed))
		db, err := localstore.New("", bytes.Repeat([]byte{0x42}, 32), nil, logging.New(io.Discard, 0))
		if err != nil { t.Fatal(err) }
		tr := traversal.New(db)
		svc := pinning.NewService(db, statestorem.NewStateStore(), tr)
		upload := func(blocks ...[]byte) boson.Address {
			pipe := builder.NewPipelineBuilder(ctx, db, storage.ModePutUpload, false)
			ref, err := builder.FeedPipeline(ctx, pipe, bytes.NewReader(bytes.Join(blocks, nil)))
			if err != nil { t.Fatal(err) }
			return ref
		}
		names := []string{"A", "B", "C"}
		refs := []boson.Address{
			upload(verifBlock('x'), verifBlock('y')),
			upload(verifBlock('x'), verifBlock('z')),
			upload(verifBlock('r'), verifBlock('r'), verifBlock('r')),
		}
		chunks := make([][]boson.Address, len(refs))
		for i, r := range refs {
			if err := tr.Traverse(ctx, r, func(a boson.Address) error { chunks[i] = append(chunks[i], a); return nil }); err != nil { t.Fatal(err) }
		}
		listed := make([]bool, len(refs))
		hist := ""
		for step := 0; step < 14; step++ {
			i := rng.Intn(len(refs))
			if rng.Intn(2) == 0 {
				hist += " pin(" + names[i] + ")"
				if err := svc.CreatePin(ctx, refs[i], true); err != nil { t.Fatalf("%s: pin: %v", hist, err) }
				listed[i] = true
			} else {
				hist += " unpin(" + names[i] + ")"
				err := svc.DeletePin(ctx, refs[i])
				if err != nil && listed[i] {
					t.Logf("REPLAY-CONFIRMED after%s: unpinning the pinned reference %s fails: %v", hist, names[i], err); db.Close(); return
				}
				listed[i] = false
			}
			for j := range refs {
				has, err := svc.HasPin(refs[j])
				if err != nil { t.Fatal(err) }
				if has != listed[j] {
					t.Logf("REPLAY-CONFIRMED after%s: reference %s listed=%v although the last operation on it says %v", hist, names[j], has, listed[j]); db.Close(); return
				}
			}
			all, err := svc.Pins()
			if err != nil { t.Fatal(err) }
			n := 0
			for _, l := range listed { if l { n++ } }
			if len(all) != n {
				t.Logf("REPLAY-CONFIRMED after%s: %d references listed, %d expected", hist, len(all), n); db.Close(); return
			}
			for j := range refs {
				for _, c := range chunks[j] {
					want := false
					for k := range refs {
						if !listed[k] { continue }
						for _, d := range chunks[k] { if d.Equal(c) { want = true } }
					}
					got, err := db.Has(ctx, storage.ModeHasPin, c)
					if err != nil { t.Fatal(err) }
					if got != want {
						t.Logf("REPLAY-CONFIRMED after%s: chunk %s of reference %s pinned=%v, but the references listed as pinned say %v (pin counts were not returned to their value before the pin, or a repeated pin/unpin had an effect)", hist, c.String()[:8], names[j], got, want); db.Close(); return
					}
				}
			}
		}
		db.Close()
	}
	t.Logf("not reproduced")
}
'''


def build(unit, obl, vals):
    return {"pkg": "pkg/pinning", "pkgname": "pinning_test", "test": TEST, "tags": "leveldb", "mask_all_tests": False}

"""Replay for C20: run the real Proximity/ExtendedProximity on the model's
inputs (and on single-bit variations of them of the same length) and compare
with the leading-equal-bits definition."""
import os, sys
sys.path.insert(0, os.path.dirname(os.path.dirname(os.path.abspath(__file__))) + "/tools")
from check import slice_bytes

TEST = '''package boson

import "testing"

func verifRefPO(a, b []byte, cap int) int {
	n := 0
	for i := 0; i < len(a); i++ {
		x := a[i] ^ b[i]
		for j := 7; j >= 0; j-- {
			if (x>>uint(j))&1 != 0 {
				if n > cap { return cap }
				return n
			}
			n++
		}
	}
	if n > cap { return cap }
	return n
}

func TestVerifReplay(t *testing.T) {
	one := []byte{%(one)s}
	other := []byte{%(other)s}
	check := func(a, b []byte) bool {
		got := int(%(fn)s(a, b))
		want := verifRefPO(a, b, %(cap)d)
		if got != want {
			t.Logf("REPLAY-CONFIRMED %(fn)s(len %%d) = %%d, leading equal bits capped = %%d", len(a), got, want)
			return true
		}
		return false
	}
	if check(one, other) { return }
	// same lengths, single-bit variations in the inspected prefix
	for p := 0; p < 48 && p < 8*len(one); p++ {
		b := append([]byte(nil), other...)
		b[p/8] ^= 0x80 >> uint(p%%8)
		if check(one, b) { return }
	}
	t.Logf("not reproduced")
}
'''

def build(unit, obl, vals):
    if "Proximity" not in unit:
        return None
    fn = "ExtendedProximity" if "Extended" in unit else "Proximity"
    cap = 36 if fn == "ExtendedProximity" else 31
    one = slice_bytes(vals, "one") or []
    other = slice_bytes(vals, "other") or []
    if len(one) != len(other) or len(one) > 1 << 20:
        return None
    lit = lambda b: ", ".join(str(x) for x in b)
    return {"pkg": "pkg/boson", "test": TEST % {"one": lit(one), "other": lit(other), "fn": fn, "cap": cap}}

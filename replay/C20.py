"""Replay for C20: run the real Proximity/ExtendedProximity/DistanceCmp on the
model's inputs (and on small variations of them of the same length) and compare
with the leading-equal-bits definition / big-integer XOR distances."""
import os, sys
sys.path.insert(0, os.path.dirname(os.path.dirname(os.path.abspath(__file__))) + "/tools")
from check import slice_bytes

TEST = '''package boson

import "testing"

func verifRefPO(a, b []byte, cap int) int {
	n := 0
	for i := 0; i < len(a); i++ {
		x := a[i] ^ b[i]
		for j := 7; j >= 0; j-- {
			if (x>>uint(j))&1 != 0 {
				if n > cap { return cap }
				return n
			}
			n++
		}
	}
	if n > cap { return cap }
	return n
}

func TestVerifReplay(t *testing.T) {
	one := []byte{%(one)s}
	other := []byte{%(other)s}
	check := func(a, b []byte) bool {
		got := int(%(fn)s(a, b))
		want := verifRefPO(a, b, %(cap)d)
		if got != want {
			t.Logf("REPLAY-CONFIRMED %(fn)s(len %%d) = %%d, leading equal bits capped = %%d", len(a), got, want)
			return true
		}
		return false
	}
	if check(one, other) { return }
	// same lengths, single-bit variations in the inspected prefix
	for p := 0; p < 48 && p < 8*len(one); p++ {
		b := append([]byte(nil), other...)
		b[p/8] ^= 0x80 >> uint(p%%8)
		if check(one, b) { return }
	}
	t.Logf("not reproduced")
}
'''

TEST_CMP = '''package boson

import (
	"math/big"
	"testing"
)

func TestVerifReplay(t *testing.T) {
	a := []byte{%(a)s}
	x := []byte{%(x)s}
	y := []byte{%(y)s}
	check := func(a, x, y []byte) bool {
		got, err := DistanceCmp(a, x, y)
		if len(a) != len(x) || len(a) != len(y) {
			if err == nil {
				t.Logf("REPLAY-CONFIRMED DistanceCmp accepted lengths %%d/%%d/%%d", len(a), len(x), len(y))
				return true
			}
			return false
		}
		if err != nil {
			t.Logf("REPLAY-CONFIRMED DistanceCmp rejected equal lengths: %%v", err)
			return true
		}
		dx, dy := make([]byte, len(a)), make([]byte, len(a))
		for i := range a { dx[i] = x[i] ^ a[i]; dy[i] = y[i] ^ a[i] }
		want := -new(big.Int).SetBytes(dx).Cmp(new(big.Int).SetBytes(dy))
		if got != want {
			t.Logf("REPLAY-CONFIRMED DistanceCmp(a=%%x, x=%%x, y=%%x) = %%d, XOR distances as big integers say %%d", a, x, y, got, want)
			return true
		}
		return false
	}
	if check(a, x, y) { return }
	if len(a) == len(x) && len(a) == len(y) {
		// same lengths, single-byte variations of y
		for p := 0; p < len(y) && p < 64; p++ {
			for _, d := range []byte{1, 0x80} {
				y2 := append([]byte(nil), y...)
				y2[p] ^= d
				if check(a, x, y2) { return }
			}
		}
	}
	t.Logf("not reproduced")
}
'''

def build(unit, obl, vals):
    lit = lambda b: ", ".join(str(v) for v in b)
    if "DistanceCmp" in unit:
        a = slice_bytes(vals, "a") or []
        x = slice_bytes(vals, "x") or []
        y = slice_bytes(vals, "y") or []
        if max(len(a), len(x), len(y)) > 1 << 16:
            return None
        return {"pkg": "pkg/boson", "test": TEST_CMP % {"a": lit(a), "x": lit(x), "y": lit(y)}}
    if "Proximity" not in unit:
        return None
    fn = "ExtendedProximity" if "Extended" in unit else "Proximity"
    cap = 36 if fn == "ExtendedProximity" else 31
    one = slice_bytes(vals, "one") or []
    other = slice_bytes(vals, "other") or []
    if len(one) != len(other) or len(one) > 1 << 20:
        return None
    return {"pkg": "pkg/boson", "test": TEST % {"one": lit(one), "other": lit(other), "fn": fn, "cap": cap}}

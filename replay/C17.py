"""Replay for C17: the real chunkinfo service over a traversal service and a local store from which
some data chunks of an uploaded file are missing; chunks are reported as read under the file
context (a stored data chunk; then the manifest / intermediate chunks a local read touches
first) and the node's own availability record - in memory and after reinitialisation from the
state store - may mark a data chunk present only if it is stored locally."""

TEST = '''package chunkinfo_test

import (
	"bytes"
	"context"
	"errors"
	"io"
	"testing"

	"github.com/gauss-project/aurorafs/pkg/boson"
	"github.com/gauss-project/aurorafs/pkg/chunkinfo"
	"github.com/gauss-project/aurorafs/pkg/file/loadsave"
	"github.com/gauss-project/aurorafs/pkg/file/pipeline"
	"github.com/gauss-project/aurorafs/pkg/file/pipeline/builder"
	"github.com/gauss-project/aurorafs/pkg/logging"
	"github.com/gauss-project/aurorafs/pkg/manifest"
	"github.com/gauss-project/aurorafs/pkg/p2p/streamtest"
	rmock "github.com/gauss-project/aurorafs/pkg/routetab/mock"
	omock "github.com/gauss-project/aurorafs/pkg/settlement/chain/oracle/mock"
	leveldbstate "github.com/gauss-project/aurorafs/pkg/statestore/leveldb"
	smock "github.com/gauss-project/aurorafs/pkg/statestore/mock"
	"github.com/gauss-project/aurorafs/pkg/storage"
	"github.com/gauss-project/aurorafs/pkg/storage/mock"
	"github.com/gauss-project/aurorafs/pkg/subscribe"
	"github.com/gauss-project/aurorafs/pkg/traversal"
)

func block(b byte) []byte { return bytes.Repeat([]byte{b}, boson.ChunkSize) }

// partialStore is a local store from which some data chunks are missing.
type partialStore struct {
	storage.Storer
	missing map[string]bool
}

func (p *partialStore) Get(ctx context.Context, mode storage.ModeGet, addr boson.Address) (boson.Chunk, error) {
	if p.missing[addr.String()] {
		return nil, storage.ErrNotFound
	}
	return p.Storer.Get(ctx, mode, addr)
}

func (p *partialStore) Has(ctx context.Context, mode storage.ModeHas, addr boson.Address) (bool, error) {
	if p.missing[addr.String()] {
		return false, nil
	}
	return p.Storer.Has(ctx, mode, addr)
}

// upload stores data as a single-file manifest and returns the manifest reference (the rootCid).
func upload(t *testing.T, ctx context.Context, store storage.Storer, data []byte) boson.Address {
	t.Helper()
	fr, err := builder.FeedPipeline(ctx, builder.NewPipelineBuilder(ctx, store, storage.ModePutUpload, false), bytes.NewReader(data))
	if err != nil {
		t.Fatal(err)
	}
	ls := loadsave.New(store, func() pipeline.Interface {
		return builder.NewPipelineBuilder(ctx, store, storage.ModePutRequest, false)
	})
	m, err := manifest.NewDefaultManifest(ls, false)
	if err != nil {
		t.Fatal(err)
	}
	name := "f.bin"
	if err := m.Add(ctx, "/", manifest.NewEntry(boson.ZeroAddress, map[string]string{
		manifest.WebsiteIndexDocumentSuffixKey: name,
		manifest.EntryMetadataDirnameKey:       name,
	})); err != nil {
		t.Fatal(err)
	}
	if err := m.Add(ctx, name, manifest.NewEntry(fr, map[string]string{
		manifest.EntryMetadataFilenameKey:    name,
		manifest.EntryMetadataContentTypeKey: "application/octet-stream",
	})); err != nil {
		t.Fatal(err)
	}
	root, err := m.Store(ctx)
	if err != nil {
		t.Fatal(err)
	}
	return root
}

func newChunkInfo(t *testing.T, self boson.Address, tr traversal.Traverser, ss storage.StateStorer, st storage.Storer) *chunkinfo.ChunkInfo {
	t.Helper()
	route := rmock.NewMockRouteTable()
	ci := chunkinfo.New(self, streamtest.New(streamtest.WithBaseAddr(self)), logging.New(io.Discard, 0), tr,
		ss, st, &route, omock.NewServer(), nil, subscribe.NewSubPub())
	if err := ci.InitChunkInfo(); err != nil {
		t.Fatal(err)
	}
	return ci
}

func ownBits(t *testing.T, ci *chunkinfo.ChunkInfo, root, self boson.Address) (int, []byte) {
	t.Helper()
	for _, o := range ci.GetChunkInfoServerOverlays(root) {
		if o.Overlay == self.String() {
			return o.Bit.Len, o.Bit.B
		}
	}
	t.Fatal("no availability record for self")
	return 0, nil
}


func TestVerifReplay(t *testing.T) {
	ctx := context.Background()
	self := boson.MustParseHexAddress("01")
	for _, layout := range []string{"xyz", "xxyz", "xyxz"} {
		full := mock.NewStorer()
		var data []byte
		for _, c := range layout { data = append(data, block(byte(c))...) }
		root := upload(t, ctx, full, data)
		lists, _, err := traversal.New(full).GetChunkHashes(ctx, root, nil)
		if err != nil { t.Logf("not reproduced: %v", err); return }
		var uniq []boson.Address
		seen := map[string]bool{}
		for _, l := range lists {
			for _, h := range l {
				a := boson.NewAddress(h)
				if !seen[a.String()] { seen[a.String()] = true; uniq = append(uniq, a) }
			}
		}
		// every chunk of the upload that is not a data chunk (manifest and intermediate chunks)
		pyr, err := traversal.New(full).GetPyramid(ctx, root)
		if err != nil { t.Logf("not reproduced: %v", err); return }
		var nonData []boson.Address
		for k := range pyr {
			if !seen[k] { a, _ := boson.ParseHexAddress(k); nonData = append(nonData, a) }
		}
		// the node stores everything except data chunk #0 and the last data chunk
		missing := map[string]bool{uniq[0].String(): true, uniq[len(uniq)-1].String(): true}
		local := &partialStore{Storer: full, missing: missing}
		check := func(what string, ci *chunkinfo.ChunkInfo) bool {
			l, b := ownBits(t, ci, root, self)
			if l != len(uniq) { t.Logf("REPLAY-CONFIRMED %s (%s): bit vector length %d, the file has %d distinct data chunks", what, layout, l, len(uniq)); return true }
			for i := 0; i < len(b)*8; i++ {
				if b[i/8]&(1<<uint(i%8)) == 0 { continue }
				if i >= len(uniq) { t.Logf("REPLAY-CONFIRMED %s (%s): bit %d set beyond the data chunks", what, layout, i); return true }
				if has, _ := local.Has(ctx, storage.ModeHasChunk, uniq[i]); !has {
					t.Logf("REPLAY-CONFIRMED %s (file layout %s): the node's own availability record marks data chunk #%d present although it is not stored locally", what, layout, i); return true
				}
			}
			return false
		}
		// (a) a stored data chunk is read under the file context
		ss := smock.NewStateStore()
		ci := newChunkInfo(t, self, traversal.New(local), ss, local)
		mid := uniq[len(uniq)/2]
		if missing[mid.String()] { mid = uniq[1] }
		if err := ci.OnChunkRetrieved(mid, root, self); err != nil { t.Logf("not reproduced: %v", err); return }
		if check("after reading a stored data chunk", ci) { return }
		if check("after reinitialising from the state store", newChunkInfo(t, self, traversal.New(local), ss, local)) { return }
		// (b) a manifest / intermediate chunk is read under the file context (what a local read of the file does first)
		ss2 := smock.NewStateStore()
		ci2 := newChunkInfo(t, self, traversal.New(local), ss2, local)
		for _, nd := range nonData {
			if nd.Equal(root) { continue }
			if err := ci2.OnChunkRetrieved(nd, root, self); err != nil { continue }
			if check("after reading an intermediate (non-data) chunk of the file", ci2) { return }
		}
	}
	// (c) two files that share a data chunk are both recorded as read; one is deleted the way the
	// API handler does it (chunks picked through the pyramid's reference counts): the survivor's
	// record must not mark a chunk present that is no longer stored
	{
		store := mock.NewStorer()
		tr := traversal.New(store)
		ss, err := leveldbstate.NewInMemoryStateStore(logging.New(io.Discard, 0))
		if err != nil { t.Fatal(err) }
		defer ss.Close()
		ci := newChunkInfo(t, self, tr, ss, store)
		shared := block('S')
		rootA := upload(t, ctx, store, append(append(append([]byte{}, block('a')...), block('A')...), shared...))
		rootB := upload(t, ctx, store, append(append(append([]byte{}, block('b')...), shared...), block('B')...))
		data := func(root boson.Address) []boson.Address {
			lists, _, err := tr.GetChunkHashes(ctx, root, nil)
			if err != nil { t.Fatal(err) }
			var out []boson.Address
			seen := map[string]bool{}
			for _, l := range lists { for _, h := range l { a := boson.NewAddress(h); if !seen[a.String()] { seen[a.String()] = true; out = append(out, a) } } }
			return out
		}
		chunksA, chunksB := data(rootA), data(rootB)
		for _, c := range chunksA { if err := ci.OnChunkRetrieved(c, rootA, self); err != nil { t.Logf("not reproduced: %v", err); return } }
		for _, c := range chunksB { if err := ci.OnChunkRetrieved(c, rootB, self); err != nil { t.Logf("not reproduced: %v", err); return } }
		del := func() error {
			for _, c := range ci.GetChunkPyramid(rootA) {
				if c.Cid.Equal(rootA) { continue }
				for i := 0; i < c.Number; i++ {
					if err := store.Set(ctx, storage.ModeSetRemove, c.Cid); err != nil && !errors.Is(err, storage.ErrNotFound) { return err }
				}
			}
			return store.Set(ctx, storage.ModeSetRemove, rootA)
		}
		if err := ci.DelFile(rootA, del); err != nil { t.Logf("not reproduced: %v", err); return }
		l, b := ownBits(t, ci, rootB, self)
		for i := 0; i < l && i < len(chunksB); i++ {
			if b[i/8]&(1<<uint(i%8)) == 0 { continue }
			if has, _ := store.Has(ctx, storage.ModeHasChunk, chunksB[i]); !has {
				t.Logf("REPLAY-CONFIRMED after deleting a file that shares a data chunk with file B, B's own availability record still marks data chunk #%d present although it is no longer stored locally", i); return
			}
		}
	}
	t.Logf("not reproduced")
}
'''


def build(unit, obl, vals):
    return {"pkg": "pkg/chunkinfo", "pkgname": "chunkinfo_test", "test": TEST}

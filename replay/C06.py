"""Replay for C06: the real traversal service over mock stores.  Pyramids of real uploads (a
small two-file collection; a single-chunk file of exactly 256 KiB) are altered in one entry
(payload bits flipped; trailing bytes appended to a full chunk, which the BMT hasher silently
ignores) and handed to GetChunkHashes with an empty local store and with a local store that
already holds the honest chunk; every chunk the store receives through Put must be a valid
content-addressed chunk, and an altered pyramid must be rejected."""

TEST = '''package traversal_test

import (
	"bytes"
	"context"
	"sync"
	"testing"
	"time"

	"github.com/gauss-project/aurorafs/pkg/boson"
	"github.com/gauss-project/aurorafs/pkg/cac"
	"github.com/gauss-project/aurorafs/pkg/file/loadsave"
	"github.com/gauss-project/aurorafs/pkg/file/pipeline/builder"
	"github.com/gauss-project/aurorafs/pkg/manifest"
	"github.com/gauss-project/aurorafs/pkg/storage"
	"github.com/gauss-project/aurorafs/pkg/storage/mock"
	"github.com/gauss-project/aurorafs/pkg/traversal"
)

type verifStore struct {
	storage.Storer
	mu   sync.Mutex
	puts []boson.Chunk
}

func (r *verifStore) Put(ctx context.Context, mode storage.ModePut, chs ...boson.Chunk) ([]bool, error) {
	r.mu.Lock()
	for _, ch := range chs {
		d := make([]byte, len(ch.Data()))
		copy(d, ch.Data())
		r.puts = append(r.puts, boson.NewChunk(ch.Address(), d))
	}
	r.mu.Unlock()
	return r.Storer.Put(ctx, mode, chs...)
}

func verifClone(p map[string][]byte) map[string][]byte {
	c := make(map[string][]byte, len(p))
	for k, v := range p { c[k] = append([]byte(nil), v...) }
	return c
}

func TestVerifReplay(t *testing.T) {
	ctx, cancel := context.WithTimeout(context.Background(), 30*time.Second)
	defer cancel()
	check := func(what string, root boson.Address, evil map[string][]byte, preload []boson.Chunk) bool {
		st := &verifStore{Storer: mock.NewStorer()}
		for _, c := range preload { _, _ = st.Storer.Put(ctx, storage.ModePutRequest, c) }
		_, _, err := traversal.New(st).GetChunkHashes(ctx, root, evil)
		for _, ch := range st.puts {
			if !cac.Valid(ch) {
				t.Logf("REPLAY-CONFIRMED %s: GetChunkHashes returned %v and handed the local store a chunk of %d bytes under %s that is not a valid content-addressed chunk", what, err, len(ch.Data()), ch.Address().String()[:8]); return true
			}
		}
		if err == nil {
			t.Logf("REPLAY-CONFIRMED %s: the altered pyramid was accepted", what); return true
		}
		return false
	}
	// (1) single full chunk, trailing bytes appended
	{
		storeA := mock.NewStorer()
		data := bytes.Repeat([]byte{7}, boson.ChunkSize)
		pipe := builder.NewPipelineBuilder(ctx, storeA, storage.ModePutUpload, false)
		root, err := builder.FeedPipeline(ctx, pipe, bytes.NewReader(data))
		if err != nil { t.Logf("not reproduced: %v", err); return }
		pyr, err := traversal.New(storeA).GetPyramid(ctx, root)
		if err != nil { t.Logf("not reproduced: %v", err); return }
		evil := verifClone(pyr)
		evil[root.String()] = append(evil[root.String()], 1, 2, 3)
		if check("full chunk with three trailing bytes", root, evil, nil) { return }
	}
	// (2) two-file collection, one entry's payload flipped; empty store and store already holding the honest chunk
	{
		storeA := mock.NewStorer()
		ls := loadsave.New(storeA, pipelineFactory(storeA, storage.ModePutRequest, false))
		m, err := manifest.NewMantarayManifest(ls, false)
		if err != nil { t.Logf("not reproduced: %v", err); return }
		var shared boson.Address
		for i, name := range []string{"a.txt", "b.txt"} {
			pipe := builder.NewPipelineBuilder(ctx, storeA, storage.ModePutUpload, false)
			fr, err := builder.FeedPipeline(ctx, pipe, bytes.NewReader(bytes.Repeat([]byte{byte('a' + i)}, 100+i)))
			if err != nil { t.Logf("not reproduced: %v", err); return }
			if i == 0 { shared = fr }
			_ = m.Add(ctx, name, manifest.NewEntry(fr, nil))
		}
		root, err := m.Store(ctx)
		if err != nil { t.Logf("not reproduced: %v", err); return }
		pyr, err := traversal.New(storeA).GetPyramid(ctx, root)
		if err != nil { t.Logf("not reproduced: %v", err); return }
		honest := pyr[shared.String()]
		evil := verifClone(pyr)
		forged := append([]byte(nil), honest...)
		for i := boson.SpanSize; i < len(forged); i++ { forged[i] ^= 0xff }
		evil[shared.String()] = forged
		if check("altered entry, empty local store", root, verifClone(evil), nil) { return }
		if check("altered entry for a chunk the local store already holds", root, verifClone(evil), []boson.Chunk{boson.NewChunk(shared, honest)}) { return }
	}
	t.Logf("not reproduced")
}
'''


RETRIEVE = r'''package retrieval_test

import (
	"context"
	"io"
	"sync"
	"testing"
	"time"

	accmock "github.com/gauss-project/aurorafs/pkg/accounting/mock"
	"github.com/gauss-project/aurorafs/pkg/boson"
	"github.com/gauss-project/aurorafs/pkg/cac"
	"github.com/gauss-project/aurorafs/pkg/chunkinfo"
	"github.com/gauss-project/aurorafs/pkg/logging"
	"github.com/gauss-project/aurorafs/pkg/p2p"
	"github.com/gauss-project/aurorafs/pkg/p2p/protobuf"
	"github.com/gauss-project/aurorafs/pkg/p2p/streamtest"
	"github.com/gauss-project/aurorafs/pkg/retrieval"
	"github.com/gauss-project/aurorafs/pkg/retrieval/pb"
	rmock "github.com/gauss-project/aurorafs/pkg/routetab/mock"
	"github.com/gauss-project/aurorafs/pkg/sctx"
	"github.com/gauss-project/aurorafs/pkg/storage"
	storemock "github.com/gauss-project/aurorafs/pkg/storage/mock"
	"github.com/gauss-project/aurorafs/pkg/subscribe"
)

// only the call made by retrieveChunk is needed
type chunkInfoStub struct{ chunkinfo.Interface }

func (chunkInfoStub) OnChunkRetrieved(_, _, _ boson.Address) error { return nil }

func mustChunk(t *testing.T, payload string) boson.Chunk {
	t.Helper()
	c, err := cac.New([]byte(payload))
	if err != nil {
		t.Fatal(err)
	}
	return c
}

// An HONEST remote peer serves two chunks of the same file. The local node downloads the
// file with explicit targets (the `targets` parameter of the download API ends up in the
// context via sctx.SetTargets) and asks for both chunks concurrently, as the joiner does.
// Every RetrieveChunk result must be a valid chunk for the address that was asked for.
func TestVerifReplay(t *testing.T) {
	var (
		logger     = logging.New(io.Discard, 0)
		rootAddr   = boson.MustParseHexAddress("3300")
		clientAddr = boson.MustParseHexAddress("9ee7add8")
		serverAddr = boson.MustParseHexAddress("9ee7add7")
		chunkA     = mustChunk(t, "payload of the first chunk")
		chunkB     = mustChunk(t, "payload of the second chunk")
		served     = map[string]boson.Chunk{
			chunkA.Address().String(): chunkA,
			chunkB.Address().String(): chunkB,
		}
	)

	// the remote peer: answers every request with the right chunk; the request for
	// chunkA is answered slowly so that the two retrievals overlap in time
	var once sync.Once
	arrivedA := make(chan struct{})
	peer := p2p.ProtocolSpec{
		Name:    "retrieval",
		Version: "1.0.0",
		StreamSpecs: []p2p.StreamSpec{{
			Name: "retrieval",
			Handler: func(ctx context.Context, _ p2p.Peer, stream p2p.Stream) error {
				w, r := protobuf.NewWriterAndReader(stream)
				var req pb.RequestChunk
				if err := r.ReadMsgWithContext(ctx, &req); err != nil {
					return err
				}
				c, ok := served[boson.NewAddress(req.ChunkAddr).String()]
				if !ok {
					_ = stream.Reset()
					return storage.ErrNotFound
				}
				if c.Address().Equal(chunkA.Address()) {
					once.Do(func() { close(arrivedA) })
					time.Sleep(500 * time.Millisecond)
				}
				if err := w.WriteMsgWithContext(ctx, &pb.Delivery{Data: c.Data()}); err != nil {
					return err
				}
				return stream.FullClose()
			},
		}},
	}
	recorder := streamtest.New(streamtest.WithProtocols(peer), streamtest.WithBaseAddr(clientAddr))

	routeTable := rmock.NewMockRouteTable()
	clientStore := storemock.NewStorer()
	client := retrieval.New(clientAddr, recorder, &routeTable, clientStore, true, logger, nil,
		accmock.NewAccounting(), subscribe.NewSubPub())
	client.Config(chunkInfoStub{})

	ctx, cancel := context.WithTimeout(context.Background(), 8*time.Second)
	defer cancel()
	ctx = sctx.SetTargets(ctx, serverAddr.String())

	type res struct {
		want boson.Chunk
		got  boson.Chunk
		err  error
	}
	out := make(chan res, 2)
	get := func(want boson.Chunk) {
		got, err := client.RetrieveChunk(ctx, rootAddr, want.Address())
		out <- res{want: want, got: got, err: err}
	}

	go get(chunkA)
	select {
	case <-arrivedA: // the retrieval of chunkA is now in flight
	case <-ctx.Done():
		t.Logf("not reproduced: the first request never reached the peer"); return
	}
	go get(chunkB)

	for i := 0; i < 2; i++ {
		r := <-out
		if r.err != nil {
			t.Logf("not reproduced: retrieve %s: %v", r.want.Address(), r.err); return
		}
		if !r.got.Address().Equal(r.want.Address()) || !cac.Valid(boson.NewChunk(r.want.Address(), r.got.Data())) {
			t.Logf("REPLAY-CONFIRMED two overlapping retrievals of different chunks of one file with explicit targets: the caller asking for chunk %s was handed chunk %s, which is not a valid chunk for the requested address", r.want.Address(), r.got.Address()); return
		}
	}
	t.Logf("not reproduced")
}
'''


def all_plans():
    return [build('', {}, {}), {"pkg": "pkg/retrieval", "pkgname": "retrieval_test", "test": RETRIEVE}]


def build(unit, obl, vals):
    if ').RetrieveChunk' in unit:
        return {"pkg": "pkg/retrieval", "pkgname": "retrieval_test", "test": RETRIEVE}
    return {"pkg": "pkg/traversal", "pkgname": "traversal_test", "test": TEST, "mask_all_tests": False}

"""Replay for C39: run the real BitVector methods on the model's vector and
compare with a []bool reference."""
import os, sys
sys.path.insert(0, os.path.dirname(os.path.dirname(os.path.abspath(__file__))) + "/tools")
from check import slice_bytes

TEST = '''package bitvector

import (
	"math/rand"
	"testing"
)

func TestVerifReplay(t *testing.T) {
	b := []byte{%(b)s}
	l := %(l)d
	try := func(b []byte, l int) bool {
		bv, err := NewFromBytes(b, l)
		if err != nil { return false }
		want := true
		for j := 0; j < l; j++ {
			if b[j/8]&(1<<uint(j%%8)) == 0 { want = false }
		}
		if got := bv.Equals(); got != want {
			t.Logf("REPLAY-CONFIRMED Equals() = %%v on len %%d over %%d bytes %%x, boolean-array reference says %%v", got, l, len(b), b, want)
			return true
		}
		return false
	}
	if try(b, l) { return }
	// neighbourhood of the model: same extents, all-set and one-bit-cleared contents
	full := make([]byte, len(b))
	for i := range full { full[i] = 0xff }
	if try(full, l) { return }
	for j := 0; j < 8*len(b) && j < 64; j++ {
		c := append([]byte(nil), full...)
		c[j/8] &^= 1 << uint(j%%8)
		if try(c, l) { return }
	}
	// random operation sequences against a []bool model (vectors over backing slices longer than
	// needed included); byte masks that clear bits already clear and set bits already set
	rnd := rand.New(rand.NewSource(39))
	for trial := 0; trial < 60; trial++ {
		l := 1 + rnd.Intn(70)
		back := make([]byte, (l+7)/8+rnd.Intn(3))
		bv, err := NewFromBytes(back, l)
		if err != nil { continue }
		model := make([]bool, l)
		for step := 0; step < 30; step++ {
			switch rnd.Intn(4) {
			case 0:
				i := rnd.Intn(l); bv.Set(i); model[i] = true
			case 1:
				i := rnd.Intn(l); bv.Unset(i); model[i] = false
			case 2, 3:
				m := make([]byte, len(bv.Bytes()))
				for i := range m { m[i] = byte(rnd.Intn(256)) }
				var err error
				if rnd.Intn(2) == 0 { err = bv.SetBytes(m) } else { err = bv.UnsetBytes(m); if err == nil { for j := 0; j < l; j++ { if m[j/8]&(1<<uint(j%%8)) != 0 { model[j] = false } } } ; goto check }
				if err == nil { for j := 0; j < l; j++ { if m[j/8]&(1<<uint(j%%8)) != 0 { model[j] = true } } }
			}
		check:
			for j := 0; j < l; j++ {
				if bv.Get(j) != model[j] {
					t.Logf("REPLAY-CONFIRMED after a sequence of set / unset / byte-mask operations on a vector of %%d bits over %%d bytes, bit %%d reads %%v, the boolean-array model says %%v", l, len(back), j, bv.Get(j), model[j]); return
				}
			}
		}
	}
	t.Logf("not reproduced")
}
'''

def build(unit, obl, vals):
    # the solver's vector when it gives one (Equals refutations), else a default one; the
    # model-based part of the battery does not depend on it
    b = slice_bytes(vals or {}, "bv.b") or []
    l = (vals or {}).get("bv.len")
    if not isinstance(l, int) or not b or len(b) > 4096 or l <= 0 or l > 8 * len(b):
        b, l = [255, 1], 9
    return {"pkg": "pkg/bitvector", "test": TEST % {"b": ", ".join(map(str, b)), "l": l}}

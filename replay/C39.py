"""Replay for C39: run the real BitVector methods on the model's vector and
compare with a []bool reference."""
import os, sys
sys.path.insert(0, os.path.dirname(os.path.dirname(os.path.abspath(__file__))) + "/tools")
from check import slice_bytes

TEST = '''package bitvector

import "testing"

func TestVerifReplay(t *testing.T) {
	b := []byte{%(b)s}
	l := %(l)d
	try := func(b []byte, l int) bool {
		bv, err := NewFromBytes(b, l)
		if err != nil { return false }
		want := true
		for j := 0; j < l; j++ {
			if b[j/8]&(1<<uint(j%%8)) == 0 { want = false }
		}
		if got := bv.Equals(); got != want {
			t.Logf("REPLAY-CONFIRMED Equals() = %%v on len %%d over %%d bytes %%x, boolean-array reference says %%v", got, l, len(b), b, want)
			return true
		}
		return false
	}
	if try(b, l) { return }
	// neighbourhood of the model: same extents, all-set and one-bit-cleared contents
	full := make([]byte, len(b))
	for i := range full { full[i] = 0xff }
	if try(full, l) { return }
	for j := 0; j < 8*len(b) && j < 64; j++ {
		c := append([]byte(nil), full...)
		c[j/8] &^= 1 << uint(j%%8)
		if try(c, l) { return }
	}
	t.Logf("not reproduced")
}
'''

def build(unit, obl, vals):
    if "Equals" not in unit:
        return None
    b = slice_bytes(vals, "bv.b") or []
    l = vals.get("bv.len")
    if not isinstance(l, int) or len(b) > 4096:
        return None
    return {"pkg": "pkg/bitvector", "test": TEST % {"b": ", ".join(map(str, b)), "l": l}}

"""Replay for C31: the real traffic.Service after a restore (trafficPeerChequeUpdate,
which is what makes the cashed / cheque / traffic records share one *big.Int) issues
cheques with succeeding and failing delivery; the record of what the peer has cashed,
and the available balance derived from it, must not move."""

TEST = '''package traffic

import (
	"context"
	"errors"
	"io"
	"math/big"
	"testing"
	"time"

	"github.com/ethereum/go-ethereum/common"
	"github.com/gauss-project/aurorafs/pkg/boson"
	"github.com/gauss-project/aurorafs/pkg/logging"
	chainTrafficMock "github.com/gauss-project/aurorafs/pkg/settlement/chain/traffic/mock"
	chequePkg "github.com/gauss-project/aurorafs/pkg/settlement/traffic/cheque"
	"github.com/gauss-project/aurorafs/pkg/statestore/mock"
	"github.com/gauss-project/aurorafs/pkg/subscribe"
)

type verifCashout struct{}

func (verifCashout) CashCheque(context.Context, boson.Address, common.Address, common.Address) (common.Hash, error) { return common.HexToHash("ee"), nil }
func (verifCashout) WaitForReceipt(context.Context, common.Hash) (uint64, error) { return 1, nil }

type verifBook31 struct{ peer boson.Address; chain common.Address }

func (b verifBook31) Beneficiary(p boson.Address) (common.Address, bool) { return b.chain, p.Equal(b.peer) }
func (b verifBook31) BeneficiaryPeer(c common.Address) (boson.Address, bool) { return b.peer, c == b.chain }
func (b verifBook31) PutBeneficiary(boson.Address, common.Address) error { return nil }
func (b verifBook31) InitAddressBook() error { return nil }

type verifSigner struct{}

func (verifSigner) Sign(*chequePkg.Cheque) ([]byte, error) { return []byte{1}, nil }

type verifProto struct{ fail bool }

func (p *verifProto) EmitCheque(context.Context, boson.Address, *chequePkg.SignedCheque) error {
	if p.fail { return errors.New("delivery failed") }
	return nil
}

func TestVerifReplay(t *testing.T) {
	self := common.HexToAddress("0x1000000000000000000000000000000000000001")
	peerChain := common.HexToAddress("0xa00000000000000000000000000000000000000a")
	peer := boson.MustParseHexAddress("aa00000000000000000000000000000000000000000000000000000000000000")
	for _, restored := range []bool{true, false} {
		for _, fail := range []bool{true, false} {
			st := mock.NewStateStore()
			proto := &verifProto{fail: fail}
			s := &Service{
				logger: logging.New(io.Discard, 0), chainAddress: self, store: st,
				chequeStore:  chequePkg.NewChequeStore(st, self, func(c *chequePkg.SignedCheque, _ int64) (common.Address, error) { return c.Beneficiary, nil }, 1),
				trafficPeers: TrafficPeer{trafficPeers: map[string]*Traffic{}, balance: big.NewInt(1000), totalPaidOut: big.NewInt(0)},
				chequeSigner: verifSigner{}, protocol: proto, subPub: subscribe.NewSubPub(),
				addressBook: verifBook31{peer: peer, chain: peerChain},
				notifyPaymentFunc: func(boson.Address, *big.Int) error { return nil },
			}
			tr := s.getTraffic(peerChain)
			tr.retrieveChainTraffic = big.NewInt(100) // the peer has cashed 100 on chain
			if restored {
				if err := s.trafficPeerChequeUpdate(peerChain, map[common.Address]*chequePkg.Cheque{}, map[common.Address]*chequePkg.SignedCheque{}); err != nil { t.Fatal(err) }
			} else {
				tr.retrieveChequeTraffic = big.NewInt(100); tr.retrieveTraffic = big.NewInt(100)
			}
			tr.retrieveTraffic = new(big.Int).Add(tr.retrieveTraffic, big.NewInt(50)) // 50 more units consumed
			before, _ := s.AvailableBalance()
			cashedBefore := new(big.Int).Set(tr.retrieveChainTraffic)
			sentBefore := new(big.Int).Set(tr.retrieveChequeTraffic)
			tr.Lock()
			err := s.issue(context.Background(), peer, peerChain, self, big.NewInt(50), tr)
			tr.Unlock()
			after, _ := s.AvailableBalance()
			if tr.retrieveChainTraffic.Cmp(cashedBefore) != 0 {
				t.Logf("REPLAY-CONFIRMED issuing a cheque (restored=%v, delivery failed=%v, err=%v) moved the record of what the peer has cashed from %v to %v; available balance %v -> %v", restored, fail, err, cashedBefore, tr.retrieveChainTraffic, before, after); return
			}
			if err != nil && tr.retrieveChequeTraffic.Cmp(sentBefore) != 0 {
				t.Logf("REPLAY-CONFIRMED a failed issue (restored=%v) still raised the cheque total from %v to %v", restored, sentBefore, tr.retrieveChequeTraffic); return
			}
			if err == nil && tr.retrieveChequeTraffic.Cmp(new(big.Int).Add(sentBefore, big.NewInt(50))) != 0 {
				t.Logf("REPLAY-CONFIRMED successful issue of 50 moved the cheque total from %v to %v", sentBefore, tr.retrieveChequeTraffic); return
			}
			if err == nil && tr.retrieveChequeTraffic.Cmp(tr.retrieveTraffic) > 0 {
				t.Logf("REPLAY-CONFIRMED cheque total %v exceeds the traffic owed %v", tr.retrieveChequeTraffic, tr.retrieveTraffic); return
			}
		}
	}
	// ---- a cheque received from the peer is cashed and the receipt comes back: the record of what
	// the PEER has cashed from us must be what the chain says (here 0), whatever we have issued
	{
		st := mock.NewStateStore()
		chain := chainTrafficMock.New(
			chainTrafficMock.WithBalanceOf(func(common.Address) (*big.Int, error) { return big.NewInt(1000), nil }),
			chainTrafficMock.WithTransAmount(func(common.Address, common.Address) (*big.Int, error) { return big.NewInt(0), nil }),
		)
		s := &Service{
			logger: logging.New(io.Discard, 0), chainAddress: self, store: st, trafficChainService: chain,
			chequeStore:  chequePkg.NewChequeStore(st, self, func(c *chequePkg.SignedCheque, _ int64) (common.Address, error) { return c.Beneficiary, nil }, 1),
			trafficPeers: TrafficPeer{trafficPeers: map[string]*Traffic{}, balance: big.NewInt(1000), totalPaidOut: big.NewInt(0)},
			cashout: verifCashout{}, addressBook: verifBook31{peer: peer, chain: peerChain},
			subPub: subscribe.NewSubPub(), cashChequeChan: make(chan cashCheque, 5),
		}
		tr := s.getTraffic(peerChain)
		tr.retrieveChequeTraffic = big.NewInt(40) // cheques we issued to the peer, not cashed by it
		tr.retrieveTraffic = big.NewInt(40)
		tr.transferChequeTraffic = big.NewInt(25) // the cheque of the peer we are cashing
		tr.transferTraffic = big.NewInt(25)
		s.cashChequeReceiptUpdate()
		s.cashChequeChan <- cashCheque{txHash: common.HexToHash("ee"), peer: peer, chainAddress: peerChain}
		time.Sleep(300 * time.Millisecond)
		tr.Lock()
		cashed := new(big.Int).Set(tr.retrieveChainTraffic)
		tr.Unlock()
		if cashed.Sign() != 0 {
			avail, _ := s.AvailableBalance()
			t.Logf("REPLAY-CONFIRMED after the receipt of our cash-out the record of what the peer has cashed from us is %v although the chain says 0 (we had issued 40 in cheques it has not cashed); available balance %v", cashed, avail); return
		}
	}
	t.Logf("not reproduced")
}
'''

def build(unit, obl, vals):
    return {"pkg": "pkg/settlement/traffic", "test": TEST}

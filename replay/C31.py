"""Replay for C31: the real traffic.Service after a restore (trafficPeerChequeUpdate,
which is what makes the cashed / cheque / traffic records share one *big.Int) issues
cheques with succeeding and failing delivery; the record of what the peer has cashed,
and the available balance derived from it, must not move."""

TEST = '''package traffic

import (
	"context"
	"errors"
	"io"
	"math/big"
	"testing"

	"github.com/ethereum/go-ethereum/common"
	"github.com/gauss-project/aurorafs/pkg/boson"
	"github.com/gauss-project/aurorafs/pkg/logging"
	chequePkg "github.com/gauss-project/aurorafs/pkg/settlement/traffic/cheque"
	"github.com/gauss-project/aurorafs/pkg/statestore/mock"
	"github.com/gauss-project/aurorafs/pkg/subscribe"
)

type verifSigner struct{}

func (verifSigner) Sign(*chequePkg.Cheque) ([]byte, error) { return []byte{1}, nil }

type verifProto struct{ fail bool }

func (p *verifProto) EmitCheque(context.Context, boson.Address, *chequePkg.SignedCheque) error {
	if p.fail { return errors.New("delivery failed") }
	return nil
}

func TestVerifReplay(t *testing.T) {
	self := common.HexToAddress("0x1000000000000000000000000000000000000001")
	peerChain := common.HexToAddress("0xa00000000000000000000000000000000000000a")
	peer := boson.MustParseHexAddress("aa00000000000000000000000000000000000000000000000000000000000000")
	for _, restored := range []bool{true, false} {
		for _, fail := range []bool{true, false} {
			st := mock.NewStateStore()
			proto := &verifProto{fail: fail}
			s := &Service{
				logger: logging.New(io.Discard, 0), chainAddress: self, store: st,
				chequeStore:  chequePkg.NewChequeStore(st, self, func(c *chequePkg.SignedCheque, _ int64) (common.Address, error) { return c.Beneficiary, nil }, 1),
				trafficPeers: TrafficPeer{trafficPeers: map[string]*Traffic{}, balance: big.NewInt(1000), totalPaidOut: big.NewInt(0)},
				chequeSigner: verifSigner{}, protocol: proto, subPub: subscribe.NewSubPub(),
				notifyPaymentFunc: func(boson.Address, *big.Int) error { return nil },
			}
			tr := s.getTraffic(peerChain)
			tr.retrieveChainTraffic = big.NewInt(100) // the peer has cashed 100 on chain
			if restored {
				if err := s.trafficPeerChequeUpdate(peerChain, map[common.Address]*chequePkg.Cheque{}, map[common.Address]*chequePkg.SignedCheque{}); err != nil { t.Fatal(err) }
			} else {
				tr.retrieveChequeTraffic = big.NewInt(100); tr.retrieveTraffic = big.NewInt(100)
			}
			tr.retrieveTraffic = new(big.Int).Add(tr.retrieveTraffic, big.NewInt(50)) // 50 more units consumed
			before, _ := s.AvailableBalance()
			cashedBefore := new(big.Int).Set(tr.retrieveChainTraffic)
			sentBefore := new(big.Int).Set(tr.retrieveChequeTraffic)
			tr.Lock()
			err := s.issue(context.Background(), peer, peerChain, self, big.NewInt(50), tr)
			tr.Unlock()
			after, _ := s.AvailableBalance()
			if tr.retrieveChainTraffic.Cmp(cashedBefore) != 0 {
				t.Logf("REPLAY-CONFIRMED issuing a cheque (restored=%v, delivery failed=%v, err=%v) moved the record of what the peer has cashed from %v to %v; available balance %v -> %v", restored, fail, err, cashedBefore, tr.retrieveChainTraffic, before, after); return
			}
			if err != nil && tr.retrieveChequeTraffic.Cmp(sentBefore) != 0 {
				t.Logf("REPLAY-CONFIRMED a failed issue (restored=%v) still raised the cheque total from %v to %v", restored, sentBefore, tr.retrieveChequeTraffic); return
			}
			if err == nil && tr.retrieveChequeTraffic.Cmp(new(big.Int).Add(sentBefore, big.NewInt(50))) != 0 {
				t.Logf("REPLAY-CONFIRMED successful issue of 50 moved the cheque total from %v to %v", sentBefore, tr.retrieveChequeTraffic); return
			}
			if err == nil && tr.retrieveChequeTraffic.Cmp(tr.retrieveTraffic) > 0 {
				t.Logf("REPLAY-CONFIRMED cheque total %v exceeds the traffic owed %v", tr.retrieveChequeTraffic, tr.retrieveTraffic); return
			}
		}
	}
	t.Logf("not reproduced")
}
'''

def build(unit, obl, vals):
    return {"pkg": "pkg/settlement/traffic", "test": TEST}

"""Replay for C23: a real Kad whose connected set is filled directly with peers spread over
several bins (small first bytes, so that whole bins are empty); for random targets, skip
lists and includeSelf on/off the answer of ClosestPeer is compared with a brute-force
XOR-closest search over the eligible peers, and ClosestPeers must be pairwise distinct and
in non-decreasing distance order."""

TEST = '''package kademlia_test

import (
	"errors"
	"math/rand"
	"testing"

	"github.com/gauss-project/aurorafs/pkg/boson"
	"github.com/gauss-project/aurorafs/pkg/p2p"
	"github.com/gauss-project/aurorafs/pkg/topology"
	"github.com/gauss-project/aurorafs/pkg/topology/kademlia"
)

func verifAddr(first, second byte) boson.Address { b := make([]byte, 32); b[0] = first; b[1] = second; return boson.NewAddress(b) }

func verifCloser(target, a, b boson.Address) bool { // a strictly closer to target than b
	c, _ := boson.DistanceCmp(target.Bytes(), a.Bytes(), b.Bytes())
	return c == 1
}

func TestVerifReplay(t *testing.T) {
	base := verifAddr(0, 0)
	for seed := int64(1); seed <= 6; seed++ {
		rnd := rand.New(rand.NewSource(seed))
		_, kad, _, _, _ := newTestKademliaWithAddr(t, base, nil, nil, kademlia.Options{})
		kad.UpdateReachability(p2p.ReachabilityStatusPublic)
		firsts := []byte{0x80, 0xc0, 0x40, 0x20, 0x10, 0x18, 0x08, 0x04, 0x05}
		var peers []boson.Address
		for _, f := range firsts {
			if rnd.Intn(3) > 0 { peers = append(peers, verifAddr(f, byte(rnd.Intn(4)))) }
		}
		if len(peers) == 0 { peers = append(peers, verifAddr(0x80, 1)) }
		kad.ConnectedPeers().Add(peers...)
		for q := 0; q < 60; q++ {
			target := verifAddr(byte(rnd.Intn(256)), byte(rnd.Intn(4)))
			var skip []boson.Address
			for _, p := range peers { if rnd.Intn(4) == 0 { skip = append(skip, p) } }
			// a skip list is whatever the caller tried before: it may name peers that are not
			// (or no longer) connected, and the same peer twice
			if rnd.Intn(2) == 0 {
				for n := rnd.Intn(len(peers) + 2); n > 0; n-- { skip = append(skip, verifAddr(byte(200+rnd.Intn(50)), byte(100+rnd.Intn(100)))) }
				if len(skip) > 0 && rnd.Intn(2) == 0 { skip = append(skip, skip[0]) }
			}
			includeSelf := rnd.Intn(2) == 0
			var elig []boson.Address
			for _, p := range peers { if !p.MemberOf(skip) { elig = append(elig, p) } }
			got, err := kad.ClosestPeer(target, includeSelf, topology.Filter{}, skip...)
			switch {
			case err == nil:
				if !got.MemberOf(elig) { t.Logf("REPLAY-CONFIRMED ClosestPeer returned a peer that is skipped or not connected"); kad.Close(); return }
				for _, p := range elig {
					if verifCloser(target, p, got) {
						t.Logf("REPLAY-CONFIRMED ClosestPeer(target %x, includeSelf %v, %d skipped) returned %x although the eligible peer %x is strictly closer", target.Bytes()[:2], includeSelf, len(skip), got.Bytes()[:2], p.Bytes()[:2]); kad.Close(); return
					}
				}
				if includeSelf && verifCloser(target, base, got) {
					t.Logf("REPLAY-CONFIRMED a peer was returned although self is eligible and strictly closer"); kad.Close(); return
				}
			case errors.Is(err, topology.ErrWantSelf):
				if !includeSelf { t.Logf("REPLAY-CONFIRMED ErrWantSelf although self was not included"); kad.Close(); return }
				for _, p := range elig {
					if verifCloser(target, p, base) {
						t.Logf("REPLAY-CONFIRMED ErrWantSelf for target %x although the eligible peer %x is strictly closer than self", target.Bytes()[:2], p.Bytes()[:2]); kad.Close(); return
					}
				}
			case errors.Is(err, topology.ErrNotFound):
				if len(elig) > 0 { t.Logf("REPLAY-CONFIRMED ErrNotFound although %d eligible peers exist", len(elig)); kad.Close(); return }
			default:
				t.Logf("not reproduced: %v", err); kad.Close(); return
			}
			list, err := kad.ClosestPeers(target, 1+rnd.Intn(len(peers)+1), topology.Filter{}, skip...)
			if err != nil { t.Logf("not reproduced: %v", err); kad.Close(); return }
			for i := range list {
				for j := i + 1; j < len(list); j++ {
					if list[i].Equal(list[j]) { t.Logf("REPLAY-CONFIRMED ClosestPeers repeats a peer"); kad.Close(); return }
				}
				if i > 0 && verifCloser(target, list[i], list[i-1]) {
					t.Logf("REPLAY-CONFIRMED ClosestPeers for target %x is not in non-decreasing distance order at position %d", target.Bytes()[:2], i); kad.Close(); return
				}
			}
		}
		kad.Close()
	}
	t.Logf("not reproduced")
}
'''


def build(unit, obl, vals):
    return {"pkg": "pkg/topology/kademlia", "pkgname": "kademlia_test", "test": TEST, "tags": "leveldb", "mask_all_tests": False}

"""Replay for C05: single-owner chunks signed with fresh real keys (wrapping leaf chunks and
chunks whose span is a subtree size) must be valid, parse back to the same id, owner and
wrapped chunk, have the address keccak(id || owner); every single-byte mutation of the id,
the wrapped span, the wrapped payload or the address, and every mutation of the first 64
signature bytes, must make the chunk invalid."""

TEST = '''package soc_test

import (
	"bytes"
	"encoding/binary"
	"testing"

	"github.com/gauss-project/aurorafs/pkg/boson"
	"github.com/gauss-project/aurorafs/pkg/cac"
	"github.com/gauss-project/aurorafs/pkg/crypto"
	"github.com/gauss-project/aurorafs/pkg/soc"
)

func TestVerifReplay(t *testing.T) {
	var wrappedChunks []boson.Chunk
	w1, _ := cac.New([]byte("foo"))
	wrappedChunks = append(wrappedChunks, w1)
	d := make([]byte, boson.SpanSize+64)
	binary.LittleEndian.PutUint64(d, 3*boson.ChunkSize)
	for i := boson.SpanSize; i < len(d); i++ { d[i] = byte(i) }
	w2, err := cac.NewWithDataSpan(d)
	if err != nil { t.Logf("not reproduced: %v", err); return }
	wrappedChunks = append(wrappedChunks, w2)
	for wi, wrapped := range wrappedChunks {
		privKey, _ := crypto.GenerateSecp256k1Key()
		signer := crypto.NewDefaultSigner(privKey)
		owner, _ := crypto.NewEthereumAddress(privKey.PublicKey)
		id := bytes.Repeat([]byte{0x5a + byte(wi)}, soc.IdSize)
		sch, err := soc.New(id, wrapped).Sign(signer)
		if err != nil { t.Logf("not reproduced: %v", err); return }
		if !soc.Valid(sch) { t.Logf("REPLAY-CONFIRMED a freshly signed single-owner chunk (wrapped chunk %d) is not valid", wi); return }
		s, err := soc.FromChunk(sch)
		if err != nil { t.Logf("REPLAY-CONFIRMED a freshly signed chunk does not parse: %v", err); return }
		if !bytes.Equal(s.ID(), id) || !bytes.Equal(s.OwnerAddress(), owner) || !s.WrappedChunk().Equal(wrapped) {
			t.Logf("REPLAY-CONFIRMED parsing a signed chunk (wrapped chunk %d) gives back a different id / owner / wrapped chunk", wi); return
		}
		want, _ := soc.CreateAddress(id, owner)
		if !sch.Address().Equal(want) { t.Logf("REPLAY-CONFIRMED address is not keccak(id || owner)"); return }
		n := len(sch.Data())
		for i := 0; i < n; i++ {
			if i >= soc.IdSize+64 && i < soc.IdSize+soc.SignatureSize { continue } // recovery byte: malleable in the library
			data := append([]byte(nil), sch.Data()...)
			data[i] ^= 0x01
			if soc.Valid(boson.NewChunk(sch.Address(), data)) {
				t.Logf("REPLAY-CONFIRMED chunk with serialized byte %d altered (id 0..31, signature 32..96, wrapped span 97..104, payload after) is still accepted", i); return
			}
		}
		ab := sch.Address().Bytes()
		for i := range ab {
			a2 := append([]byte(nil), ab...)
			a2[i] ^= 0x80
			if soc.Valid(boson.NewChunk(boson.NewAddress(a2), sch.Data())) {
				t.Logf("REPLAY-CONFIRMED chunk with address byte %d altered is still accepted", i); return
			}
		}
	}
	t.Logf("not reproduced")
}
'''


def build(unit, obl, vals):
    return {"pkg": "pkg/soc", "pkgname": "soc_test", "test": TEST, "mask_all_tests": False}

"""Replay for C34: records signed with fresh real keys parse back to the same underlay, overlay
and signature; each of the four values (underlay, overlay, signature, network id) is then
changed, before and after the genuine record has been parsed, and every changed record must
be rejected."""

TEST = '''package aurora_test

import (
	"bytes"
	"testing"

	"github.com/gauss-project/aurorafs/pkg/aurora"
	"github.com/gauss-project/aurorafs/pkg/crypto"
	ma "github.com/multiformats/go-multiaddr"
)

func TestVerifReplay(t *testing.T) {
	const networkID = 3
	u1, _ := ma.NewMultiaddr("/ip4/10.0.0.7/tcp/1634/p2p/16Uiu2HAkx8ULY8cTXhdVAcMmLcH9AsTKz6uBQ7DPLKRjMLgBVYkA")
	u2, _ := ma.NewMultiaddr("/ip4/66.66.66.66/tcp/1634/p2p/16Uiu2HAkx8ULY8cTXhdVAcMmLcH9AsTKz6uBQ7DPLKRjMLgBVYkA")
	for round := 0; round < 3; round++ {
		key, _ := crypto.GenerateSecp256k1Key()
		overlay, _ := crypto.NewOverlayAddress(key.PublicKey, networkID)
		rec, err := aurora.NewAddress(crypto.NewDefaultSigner(key), u1, overlay, networkID)
		if err != nil { t.Logf("not reproduced: %v", err); return }
		ub, _ := rec.Underlay.MarshalBinary()
		ub2, _ := u2.MarshalBinary()
		other, _ := crypto.GenerateSecp256k1Key()
		otherOverlay, _ := crypto.NewOverlayAddress(other.PublicKey, networkID)
		type mut struct{ name string; u, o, s []byte; nid uint64 }
		sig2 := append([]byte(nil), rec.Signature...)
		sig2[5] ^= 0x10
		muts := []mut{
			{"underlay changed", ub2, rec.Overlay.Bytes(), rec.Signature, networkID},
			{"overlay changed", ub, otherOverlay.Bytes(), rec.Signature, networkID},
			{"signature changed", ub, rec.Overlay.Bytes(), sig2, networkID},
			{"network id changed", ub, rec.Overlay.Bytes(), rec.Signature, networkID + 1},
		}
		check := func(when string) bool {
			for _, m := range muts {
				if a, err := aurora.ParseAddress(m.u, m.o, m.s, m.nid); err == nil {
					t.Logf("REPLAY-CONFIRMED record with %s is accepted (%s): underlay %v", m.name, when, a.Underlay); return true
				}
			}
			return false
		}
		if check("before the genuine record was parsed") { return }
		got, err := aurora.ParseAddress(ub, rec.Overlay.Bytes(), rec.Signature, networkID)
		if err != nil { t.Logf("REPLAY-CONFIRMED a genuine record is rejected: %v", err); return }
		if !got.Overlay.Equal(rec.Overlay) || !got.Underlay.Equal(rec.Underlay) || !bytes.Equal(got.Signature, rec.Signature) {
			t.Logf("REPLAY-CONFIRMED the parsed record differs from what was signed"); return
		}
		if check("after the genuine record was parsed") { return }
	}
	t.Logf("not reproduced")
}
'''


def build(unit, obl, vals):
    return {"pkg": "pkg/aurora", "pkgname": "aurora_test", "test": TEST, "mask_all_tests": False}

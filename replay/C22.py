"""Replay for C22: a real Kad built through its notifier entry points over random layouts of
connected peers in bins 0..7 with random reachability and storage radius; after every change the
depth the node reports is checked against every clause of the statement, computed independently
from the test's own record of the peers: never above the radius, zero with at most three peers,
at least three reachable peers at or beyond a positive depth, never above the shallowest empty
bin, and every shallower bin holding at least the quick-saturation number (4 in the default
configuration) of reachable peers."""

TEST = '''package kademlia_test

import (
	"math/rand"
	"testing"

	"github.com/gauss-project/aurorafs/pkg/aurora"
	"github.com/gauss-project/aurorafs/pkg/boson"
	"github.com/gauss-project/aurorafs/pkg/boson/test"
	"github.com/gauss-project/aurorafs/pkg/p2p"
	"github.com/gauss-project/aurorafs/pkg/topology/kademlia"
)

func TestVerifReplay(t *testing.T) {
	const quick = 4 // quickSaturationPeers, default configuration
	for seed := int64(1); seed <= 12; seed++ {
		rnd := rand.New(rand.NewSource(seed))
		base, kad, ab, _, signer := newTestKademlia(t, nil, nil, kademlia.Options{})
		type pr struct{ a boson.Address; bin int; public bool }
		var peers []*pr
		radius := uint8(rnd.Intn(9))
		kad.SetRadius(radius)
		check := func(what string) bool {
			depth := int(kad.NeighborhoodDepth())
			total := len(peers)
			reach := make([]int, 33)
			size := make([]int, 33)
			for _, p := range peers {
				size[p.bin]++
				if p.public { reach[p.bin]++ }
			}
			if depth > int(radius) {
				t.Logf("REPLAY-CONFIRMED %s: depth %d exceeds the storage radius %d", what, depth, radius); return true
			}
			if total <= 3 && depth != 0 {
				t.Logf("REPLAY-CONFIRMED %s: depth %d with only %d connected peers", what, depth, total); return true
			}
			if depth > 0 {
				n := 0
				for b := depth; b < 33; b++ { n += reach[b] }
				if n < 3 {
					t.Logf("REPLAY-CONFIRMED %s: depth %d leaves only %d reachable peers at or beyond it (sizes %v reachable %v)", what, depth, n, size[:9], reach[:9]); return true
				}
			}
			for b := 0; b < depth; b++ {
				if size[b] == 0 {
					t.Logf("REPLAY-CONFIRMED %s: depth %d exceeds the empty bin %d", what, depth, b); return true
				}
				if reach[b] < quick {
					t.Logf("REPLAY-CONFIRMED %s: depth %d although the shallower bin %d holds only %d reachable peers (needs %d); bin sizes %v, reachable %v", what, depth, b, reach[b], quick, size[:9], reach[:9]); return true
				}
			}
			return false
		}
		// bins get 0..6 peers each; some bins get peers none of which becomes reachable
		for bin := 0; bin < 8; bin++ {
			n := rnd.Intn(7)
			mode := rnd.Intn(4) // 0: none reachable, 1..3: most reachable
			for j := 0; j < n; j++ {
				p := &pr{a: test.RandomAddressAt(base, bin), bin: bin}
				connectOne(t, signer, kad, ab, p.a, nil)
				peers = append(peers, p)
				if mode != 0 && rnd.Intn(5) != 0 {
					kad.Reachable(p.a, p2p.ReachabilityStatusPublic)
					p.public = true
				}
				if check("while connecting peers") { return }
			}
		}
		// then reachability changes of single peers, and peers leaving (deepest first now and then:
		// a depth pinned by exactly three reachable peers must follow the loss of one of them)
		for step := 0; step < 40 && len(peers) > 0; step++ {
			if rnd.Intn(3) == 0 {
				i := rnd.Intn(len(peers))
				if rnd.Intn(2) == 0 {
					for j := range peers { if peers[j].bin > peers[i].bin { i = j } }
				}
				p := peers[i]
				kad.Disconnected(p2p.Peer{Address: p.a, Mode: aurora.NewModel().SetMode(aurora.FullNode)}, "gone")
				peers = append(peers[:i], peers[i+1:]...)
				if check("after a peer left") { return }
				continue
			}
			p := peers[rnd.Intn(len(peers))]
			if p.public {
				kad.Reachable(p.a, p2p.ReachabilityStatusPrivate)
				p.public = false
			} else {
				kad.Reachable(p.a, p2p.ReachabilityStatusPublic)
				p.public = true
			}
			if check("after a reachability change") { return }
		}
	}
	t.Logf("not reproduced")
}
'''


def build(unit, obl, vals):
    return {"pkg": "pkg/topology/kademlia", "pkgname": "kademlia_test", "test": TEST, "tags": "leveldb", "mask_all_tests": False}

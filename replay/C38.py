"""Replay for C38: the real multicast Service and Group with the mock kademlia and a route
table whose neighbour answers are controlled; random histories of group add (keep on/off),
remove (into known on/off), neighbour flips and pruneKnown over a few peers; after every
step every peer is in at most one of connected / kept / known, a peer that the last add
put into connected was a direct neighbour at that moment, other peers did not move."""

TEST = '''package multicast

import (
	"math/rand"
	"sync"
	"testing"

	"github.com/gauss-project/aurorafs/pkg/aurora"
	"github.com/gauss-project/aurorafs/pkg/boson"
	"github.com/gauss-project/aurorafs/pkg/boson/test"
	"github.com/gauss-project/aurorafs/pkg/multicast/model"
	mockRoute "github.com/gauss-project/aurorafs/pkg/routetab/mock"
	"github.com/gauss-project/aurorafs/pkg/subscribe"
	"github.com/gauss-project/aurorafs/pkg/topology/kademlia/mock"
)

type verifRoute struct {
	mockRoute.MockRouteTable
	mu sync.Mutex
	nb map[string]bool
}

func (r *verifRoute) IsNeighbor(dest boson.Address) bool { r.mu.Lock(); defer r.mu.Unlock(); return r.nb[dest.String()] }

func verifWhere(g *Group, p boson.Address) (c, k, kn bool) {
	return g.connectedPeers.Exists(p), g.keepPeers.Exists(p), g.knownPeers.Exists(p)
}

func TestVerifReplay(t *testing.T) {
	for seed := int64(1); seed <= 8; seed++ {
		rnd := rand.New(rand.NewSource(seed))
		route := &verifRoute{nb: map[string]bool{}}
		s := NewService(test.RandomAddress(), aurora.NewModel(), nil, nil, mock.NewMockKademlia(), route, logger, subscribe.NewSubPub(), Option{Dev: true})
		gid := GenerateGID("verif-c38")
		g := s.newGroup(gid, model.ConfigNodeGroup{Name: "verif-c38", GType: model.GTypeJoin})
		var peers []boson.Address
		for i := 0; i < 4; i++ { peers = append(peers, test.RandomAddress()) }
		for step := 0; step < 60; step++ {
			p := peers[rnd.Intn(len(peers))]
			type w struct{ c, k, kn bool }
			before := map[string]w{}
			for _, q := range peers { c, k, kn := verifWhere(g, q); before[q.String()] = w{c, k, kn} }
			op := rnd.Intn(5)
			keep, into := rnd.Intn(2) == 0, rnd.Intn(2) == 0
			switch op {
			case 0, 1:
				g.add(p, keep)
			case 2:
				g.remove(p, into)
			case 3:
				route.mu.Lock(); route.nb[p.String()] = !route.nb[p.String()]; route.mu.Unlock()
			case 4:
				g.pruneKnown()
			}
			for _, q := range peers {
				c, k, kn := verifWhere(g, q)
				n := 0
				for _, b := range []bool{c, k, kn} { if b { n++ } }
				if n > 1 {
					t.Logf("REPLAY-CONFIRMED after step %d a peer is in %d of the lists connected/kept/known (%v %v %v)", step, n, c, k, kn); return
				}
				if !q.Equal(p) && op != 4 && (w{c, k, kn}) != before[q.String()] {
					t.Logf("REPLAY-CONFIRMED step %d (op %d on another peer) moved a peer between the lists", step, op); return
				}
			}
			c, k, kn := verifWhere(g, p)
			if op <= 1 {
				if c && !(keep && route.IsNeighbor(p)) {
					t.Logf("REPLAY-CONFIRMED add(peer, keep=%v) leaves the peer listed as connected although it is not a direct neighbour (was connected before: %v)", keep, before[p.String()].c); return
				}
				if keep && !route.IsNeighbor(p) && !k { t.Logf("REPLAY-CONFIRMED add(peer, keep) of a non-neighbour did not put it into the kept list"); return }
				if !keep && !kn { t.Logf("REPLAY-CONFIRMED add(peer, !keep) did not put it into the known list"); return }
			}
			if op == 2 && (c || k || (kn && !into)) { t.Logf("REPLAY-CONFIRMED remove left the peer in connected/kept (or in known although not asked)"); return }
		}
	}
	t.Logf("not reproduced")
}
'''


def build(unit, obl, vals):
    return {"pkg": "pkg/multicast", "test": TEST, "mask_all_tests": False}

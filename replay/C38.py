"""Replay for C38: the real multicast Service and Group with the mock kademlia and a route
table whose neighbour answers are controlled; random histories of group add (keep on/off),
remove (into known on/off), neighbour flips and pruneKnown over a few peers; after every
step every peer is in at most one of connected / kept / known, a peer that the last add
put into connected was a direct neighbour at that moment, other peers did not move."""

TEST = '''package multicast

import (
	"bytes"
	"context"
	"math/rand"
	"sync"
	"testing"
	"time"

	"github.com/gauss-project/aurorafs/pkg/aurora"
	"github.com/gauss-project/aurorafs/pkg/boson"
	"github.com/gauss-project/aurorafs/pkg/boson/test"
	"github.com/gauss-project/aurorafs/pkg/multicast/model"
	"github.com/gauss-project/aurorafs/pkg/multicast/pb"
	"github.com/gauss-project/aurorafs/pkg/p2p"
	"github.com/gauss-project/aurorafs/pkg/p2p/protobuf"
	mockRoute "github.com/gauss-project/aurorafs/pkg/routetab/mock"
	"github.com/gauss-project/aurorafs/pkg/subscribe"
	"github.com/gauss-project/aurorafs/pkg/topology/kademlia/mock"
)

// flooding part: every peer is a neighbour, streams opened for multicast are counted per
// destination, deliveries to the group's subscribers are counted
type verifAllNb struct{ mockRoute.MockRouteTable }

func (verifAllNb) IsNeighbor(boson.Address) bool { return true }

type verifBuf struct{ bytes.Buffer }

func (*verifBuf) Close() error                 { return nil }
func (*verifBuf) FullClose() error             { return nil }
func (*verifBuf) Reset() error                 { return nil }
func (*verifBuf) Headers() p2p.Headers         { return nil }
func (*verifBuf) ResponseHeaders() p2p.Headers { return nil }

type verifCountStreamer struct {
	mu   sync.Mutex
	sent int
}

func (d *verifCountStreamer) open(stream string) (p2p.Stream, error) {
	d.mu.Lock()
	if stream == streamMulticast { d.sent++ }
	d.mu.Unlock()
	return &verifBuf{}, nil
}
func (d *verifCountStreamer) NewStream(_ context.Context, _ boson.Address, _ p2p.Headers, _, _, stream string) (p2p.Stream, error) { return d.open(stream) }
func (d *verifCountStreamer) NewRelayStream(_ context.Context, _ boson.Address, _ p2p.Headers, _, _, stream string, _ bool) (p2p.Stream, error) { return d.open(stream) }
func (d *verifCountStreamer) NewConnChainRelayStream(_ context.Context, _ boson.Address, _ p2p.Headers, _, _, stream string) (p2p.Stream, error) { return d.open(stream) }

type verifCountPub struct {
	mu        sync.Mutex
	delivered int
}

func (p *verifCountPub) Subscribe(subscribe.INotifier, string, string, string) error { return nil }
func (p *verifCountPub) Publish(ns, kind, _ string, _ interface{}) error {
	p.mu.Lock()
	if ns == "group" && kind == "multicastMsg" { p.delivered++ }
	p.mu.Unlock()
	return nil
}
func (p *verifCountPub) PublishArray(string, string, string, []interface{}) error { return nil }

type verifRoute struct {
	mockRoute.MockRouteTable
	mu sync.Mutex
	nb map[string]bool
}

func (r *verifRoute) IsNeighbor(dest boson.Address) bool { r.mu.Lock(); defer r.mu.Unlock(); return r.nb[dest.String()] }

func verifWhere(g *Group, p boson.Address) (c, k, kn bool) {
	return g.connectedPeers.Exists(p), g.keepPeers.Exists(p), g.knownPeers.Exists(p)
}

func TestVerifReplay(t *testing.T) {
	for seed := int64(1); seed <= 3; seed++ {
		rnd := rand.New(rand.NewSource(seed))
		route := &verifRoute{nb: map[string]bool{}}
		s := NewService(test.RandomAddress(), aurora.NewModel(), nil, nil, mock.NewMockKademlia(), route, logger, subscribe.NewSubPub(), Option{Dev: true})
		gid := GenerateGID("verif-c38")
		g := s.newGroup(gid, model.ConfigNodeGroup{Name: "verif-c38", GType: model.GTypeJoin})
		var peers []boson.Address
		for i := 0; i < 4; i++ { peers = append(peers, test.RandomAddress()) }
		// deterministic prelude: connected as a neighbour, the neighbour is lost, added again
		{
			p := peers[0]
			route.mu.Lock(); route.nb[p.String()] = true; route.mu.Unlock()
			g.add(p, true)
			route.mu.Lock(); route.nb[p.String()] = false; route.mu.Unlock()
			g.add(p, true)
			if c, _, _ := verifWhere(g, p); c {
				t.Logf("REPLAY-CONFIRMED add(peer, keep) after the peer stopped being a direct neighbour leaves it listed as connected"); return
			}
			g.remove(p, false)
		}
		for step := 0; step < 40; step++ {
			p := peers[rnd.Intn(len(peers))]
			type w struct{ c, k, kn bool }
			before := map[string]w{}
			for _, q := range peers { c, k, kn := verifWhere(g, q); before[q.String()] = w{c, k, kn} }
			op := rnd.Intn(5)
			keep, into := rnd.Intn(2) == 0, rnd.Intn(2) == 0
			switch op {
			case 0, 1:
				g.add(p, keep)
			case 2:
				g.remove(p, into)
			case 3:
				route.mu.Lock(); route.nb[p.String()] = !route.nb[p.String()]; route.mu.Unlock()
			case 4:
				g.pruneKnown()
			}
			for _, q := range peers {
				c, k, kn := verifWhere(g, q)
				n := 0
				for _, b := range []bool{c, k, kn} { if b { n++ } }
				if n > 1 {
					t.Logf("REPLAY-CONFIRMED after step %d a peer is in %d of the lists connected/kept/known (%v %v %v)", step, n, c, k, kn); return
				}
				if !q.Equal(p) && op != 4 && (w{c, k, kn}) != before[q.String()] {
					t.Logf("REPLAY-CONFIRMED step %d (op %d on another peer) moved a peer between the lists", step, op); return
				}
			}
			c, k, kn := verifWhere(g, p)
			if op <= 1 {
				if c && !(keep && route.IsNeighbor(p)) {
					t.Logf("REPLAY-CONFIRMED add(peer, keep=%v) leaves the peer listed as connected although it is not a direct neighbour (was connected before: %v)", keep, before[p.String()].c); return
				}
				if keep && !route.IsNeighbor(p) && !k { t.Logf("REPLAY-CONFIRMED add(peer, keep) of a non-neighbour did not put it into the kept list"); return }
				if !keep && !kn { t.Logf("REPLAY-CONFIRMED add(peer, !keep) did not put it into the known list"); return }
			}
			if op == 2 && (c || k || (kn && !into)) { t.Logf("REPLAY-CONFIRMED remove left the peer in connected/kept (or in known although not asked)"); return }
		}
	}
	// ---- flooding: the same (origin, id) reaches a member from two neighbours shortly after one
	// another; whatever creation time the message states, it is delivered once and forwarded in
	// one round only
	for i, age := range []time.Duration{0, 2 * time.Minute, 24 * time.Hour} {
		streamer := &verifCountStreamer{}
		pub := &verifCountPub{}
		s := NewService(test.RandomAddress(), aurora.NewModel(), nil, streamer, mock.NewMockKademlia(), &verifAllNb{}, logger, pub, Option{Dev: true})
		gid := GenerateGID("verif-c38-flood")
		g := s.newGroup(gid, model.ConfigNodeGroup{Name: "verif-c38-flood", GType: model.GTypeJoin})
		g.multicastSub = true
		a, b, c := test.RandomAddress(), test.RandomAddress(), test.RandomAddress()
		for _, p := range []boson.Address{a, b, c} { g.add(p, true) }
		origin := test.RandomAddress()
		created := time.Now().Add(-age).UnixMilli()
		if i == 2 { created = 0 }
		receive := func(from boson.Address) {
			st := &verifBuf{}
			if err := protobuf.NewWriter(st).WriteMsg(&pb.MulticastMsg{Id: uint64(100 + i), CreateTime: created, Origin: origin.Bytes(), Gid: gid.Bytes(), Data: []byte("x")}); err != nil { t.Fatal(err) }
			_ = s.onMulticast(context.Background(), p2p.Peer{Address: from}, st)
		}
		receive(a)
		d1, f1 := pub.delivered, streamer.sent
		time.Sleep(20 * time.Millisecond)
		receive(b)
		if pub.delivered != d1 || streamer.sent != f1 || d1 != 1 {
			t.Logf("REPLAY-CONFIRMED a multicast message stating creation time %v (now-%v) arriving from two neighbours within 20 ms is delivered %d times and forwarded in %d sends (first arrival: %d delivery, %d sends)", created, age, pub.delivered, streamer.sent, d1, f1); return
		}
	}
	t.Logf("not reproduced")
}
'''


def build(unit, obl, vals):
    return {"pkg": "pkg/multicast", "test": TEST, "mask_all_tests": False}

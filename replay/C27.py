"""Replay for C27: the real route Table over the mock state store.  Random histories of
SavePath (paths over a small node universe, duplicates included), Delete, Gc and reload from
the store (ResumePaths + ResumeRoutes on a fresh Table), checked after every step against the
statement: at most NeighborAlpha routes per target, every returned path contains the target
before its last hop, next hops distinct / not skipped / last hop of a path that is still
stored and contains the target, deleted paths never returned."""

TEST = '''package routetab

import (
	"math/rand"
	"testing"
	"time"

	"github.com/gauss-project/aurorafs/pkg/boson"
	"github.com/gauss-project/aurorafs/pkg/boson/test"
	"github.com/gauss-project/aurorafs/pkg/routetab/pb"
	mockstate "github.com/gauss-project/aurorafs/pkg/statestore/mock"
)

func verifCheck(t *testing.T, tb *Table, nodes []boson.Address, live map[string][]boson.Address, what string) bool {
	alpha := int(NeighborAlpha)
	for _, target := range nodes {
		paths, err := tb.Get(target)
		if err == nil {
			if len(paths) > alpha {
				t.Logf("REPLAY-CONFIRMED %s: target has %d paths, configured maximum is %d", what, len(paths), alpha); return true
			}
			for _, p := range paths {
				if len(p.Items) < 2 || !target.MemberOf(p.Items[:len(p.Items)-1]) {
					t.Logf("REPLAY-CONFIRMED %s: returned path does not contain the target before its last hop", what); return true
				}
				k, _ := generatePathItems(convItemsToBytes(p.Items))
				if _, ok := live[k.String()]; !ok {
					t.Logf("REPLAY-CONFIRMED %s: a deleted / expired path is returned", what); return true
				}
			}
		}
		skip := nodes[rand.Intn(len(nodes))]
		next := tb.GetNextHop(target, skip)
		if len(next) > alpha {
			t.Logf("REPLAY-CONFIRMED %s: %d next hops offered, configured maximum is %d", what, len(next), alpha); return true
		}
		seen := map[string]bool{}
		for _, n := range next {
			if seen[n.String()] { t.Logf("REPLAY-CONFIRMED %s: duplicate next hop", what); return true }
			seen[n.String()] = true
			if n.Equal(skip) { t.Logf("REPLAY-CONFIRMED %s: a skipped peer is offered as next hop", what); return true }
			ok := false
			for _, items := range live {
				if items[len(items)-1].Equal(n) && target.MemberOf(items[:len(items)-1]) { ok = true }
			}
			if !ok {
				t.Logf("REPLAY-CONFIRMED %s: next hop %s offered for target %s is not the last hop of any stored path containing the target", what, n.String()[:8], target.String()[:8]); return true
			}
		}
	}
	return false
}

func TestVerifReplay(t *testing.T) {
	for seed := int64(1); seed <= 6; seed++ {
		rand.Seed(seed)
		var nodes []boson.Address
		for i := 0; i < 5; i++ { nodes = append(nodes, test.RandomAddress()) }
		store := mockstate.NewStateStore()
		tb := newRouteTable(test.RandomAddress(), store)
		live := map[string][]boson.Address{}
		var saved []*Path
		for step := 0; step < 40; step++ {
			switch r := rand.Intn(10); {
			case r < 6: // save a random path (loops and duplicates allowed)
				n := 2 + rand.Intn(3)
				var raw [][]byte
				for i := 0; i < n; i++ { raw = append(raw, nodes[rand.Intn(len(nodes))].Bytes()) }
				tb.SavePath(&pb.Path{Items: raw})
				k, items := generatePathItems(raw)
				live[k.String()] = items
				saved = append(saved, &Path{Items: items})
			case r < 8: // delete a saved path
				if len(saved) > 0 {
					i := rand.Intn(len(saved))
					tb.Delete(saved[i])
					k, _ := generatePathItems(convItemsToBytes(saved[i].Items))
					delete(live, k.String())
				}
			case r < 9: // expire everything not used for an hour (nothing), then everything
				tb.Gc(time.Hour)
				if rand.Intn(4) == 0 {
					time.Sleep(2 * time.Millisecond)
					tb.Gc(0)
					live = map[string][]boson.Address{}
				}
			default: // restart: reload from the store
				tb = newRouteTable(tb.self, store)
				tb.ResumePaths()
				tb.ResumeRoutes()
			}
			if verifCheck(t, tb, nodes, live, "after a history of saves, deletes, expiry and reloads") { return }
		}
	}
	t.Logf("not reproduced")
}
'''


def build(unit, obl, vals):
    return {"pkg": "pkg/routetab", "test": TEST, "tags": "leveldb"}

"""Replay for C40: the real subPub; n subscribers on one key, one of them leaves while a Publish
is inside its Notify (a forced overlap of Publish and the processing of the unsubscription);
every subscriber that stays must get the in-flight message exactly once and the next one,
in order; the leaver gets nothing after leaving; registrations are kept in order."""

TEST = '''package subscribe

import (
	"fmt"
	"reflect"
	"sync"
	"testing"
	"time"
)

type verifRec struct {
	mu   sync.Mutex
	msgs []interface{}
	errC chan error
}

func (r *verifRec) Notify(_ string, data interface{}) error { r.mu.Lock(); r.msgs = append(r.msgs, data); r.mu.Unlock(); return nil }
func (r *verifRec) Err() <-chan error                       { return r.errC }
func (r *verifRec) got() []interface{}                      { r.mu.Lock(); defer r.mu.Unlock(); return append([]interface{}(nil), r.msgs...) }

// leaves (closes its error channel) while it is being notified and returns from Notify
// only once its unsubscription has been processed: a forced overlap of Publish and unsubscribe
type verifLeaver struct {
	verifRec
	once    sync.Once
	removed func() bool
}

func (l *verifLeaver) Notify(key string, data interface{}) error {
	_ = l.verifRec.Notify(key, data)
	l.once.Do(func() {
		close(l.errC)
		deadline := time.Now().Add(3 * time.Second)
		for !l.removed() && time.Now().Before(deadline) { time.Sleep(time.Millisecond) }
	})
	return nil
}

func verifRegistered(s *subPub, key string) []INotifier {
	v, ok := s.keyToNotifier.Load(key)
	if !ok { return nil }
	var out []INotifier
	for _, si := range v.([]*subInfo) { out = append(out, si.notifier) }
	return out
}

func TestVerifReplay(t *testing.T) {
	const key = "ns_kind_p"
	for n := 2; n <= 4; n++ {
		for leave := 0; leave < n; leave++ {
			s := NewSubPub()
			subs := make([]INotifier, n)
			recs := make([]*verifRec, n)
			var lv *verifLeaver
			for i := 0; i < n; i++ {
				if i == leave {
					lv = &verifLeaver{verifRec: verifRec{errC: make(chan error)}}
					recs[i] = &lv.verifRec
					subs[i] = lv
				} else {
					r := &verifRec{errC: make(chan error)}
					recs[i] = r
					subs[i] = r
				}
			}
			lv.removed = func() bool {
				for _, x := range verifRegistered(s, key) { if x == INotifier(lv) { return false } }
				return true
			}
			for i, x := range subs {
				_ = s.Subscribe(x, "ns", "kind", "p")
				deadline := time.Now().Add(3 * time.Second)
				for len(verifRegistered(s, key)) != i+1 && time.Now().Before(deadline) { time.Sleep(time.Millisecond) }
			}
			if got := verifRegistered(s, key); len(got) != n { t.Logf("not reproduced: %d registrations", len(got)); return }
			for i, x := range verifRegistered(s, key) {
				if x != subs[i] { t.Logf("REPLAY-CONFIRMED registrations are not kept in subscription order"); return }
			}
			_ = s.Publish("ns", "kind", "p", "m1") // the leaver leaves while this publish is in flight
			if !lv.removed() { t.Logf("REPLAY-CONFIRMED subscriber %d of %d was not unsubscribed after its error channel fired", leave, n); return }
			_ = s.Publish("ns", "kind", "p", "m2")
			for i := 0; i < n; i++ {
				want := []interface{}{"m1", "m2"}
				if i == leave { want = []interface{}{"m1"} }
				if got := recs[i].got(); !reflect.DeepEqual(got, want) {
					t.Logf("REPLAY-CONFIRMED %d subscribers, number %d leaves during a publish: subscriber %d got %s, want %s", n, leave, i, fmt.Sprint(got), fmt.Sprint(want)); return
				}
			}
		}
	}
	t.Logf("not reproduced")
}
'''


def build(unit, obl, vals):
    return {"pkg": "pkg/subscribe", "test": TEST}

package main

import (
	"fmt"
	"go/types"
)

// assumeLocked: a precondition conjunct locked(obj) puts the object's mutex
// into the lock ghost at unit entry (the caller holds it).
func (x *Exec) assumeLocked(st *State, env *SpecEnv, e SExpr) {
	switch n := e.(type) {
	case *SBin:
		if n.Op == "&&" {
			x.assumeLocked(st, env, n.X)
			x.assumeLocked(st, env, n.Y)
		}
	case *SCall:
		if n.Fn != "locked" || len(n.Args) != 1 {
			return
		}
		v := env.eval(n.Args[0])
		et := pointee(v.T)
		if v.K != KRef || et == nil {
			return
		}
		stt, ok := et.Underlying().(*types.Struct)
		if !ok {
			return
		}
		for i := 0; i < stt.NumFields(); i++ {
			if nt, ok := stt.Field(i).Type().(*types.Named); ok && nt.Obj().Pkg() != nil && nt.Obj().Pkg().Path() == "sync" && (nt.Obj().Name() == "Mutex" || nt.Obj().Name() == "RWMutex") {
				k := fmt.Sprintf("obj:%s:%v", v.S, []PathElem{{Field: i}})
				st.held[k] = "w"
				if st.heldRef == nil {
					st.heldRef = map[string]string{}
				}
				st.heldRef[k] = v.S
				return
			}
		}
	}
}

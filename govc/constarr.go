package main

import (
	"os"
	"strings"
)

// constArrayTerm: the array of sort arrSort holding the element term ez
// everywhere.  cvc5 accepts "(as const ...)" only for value elements; for
// elements mentioning declared constants (zero values of uninterpreted sorts)
// an axiomatised constant array is used instead.
func constArrayTerm(x *Exec, arrSort, ez string) string {
	if !strings.Contains(ez, "zero_") || x == nil {
		return "((as const " + arrSort + ") " + ez + ")"
	}
	name := "zarr$" + sanitize(arrSort) + "$" + sanitize(ez)
	if !x.d.seen[name] {
		x.d.constant(name, arrSort)
		x.axioms = append(x.axioms, "(forall ((i!z Int)) (! (= (select "+name+" i!z) "+ez+") :pattern ((select "+name+" i!z))))")
	}
	return name
}

// b2iNamed: the Int value of a byte term, named by a constant per path so that
// the eight-ite expansion of b2i appears once instead of in every use.
func (x *Exec) b2iNamed(st *State, b string) string {
	if v, ok := isBV8Lit(b); ok {
		return intLit64(int64(v))
	}
	if st == nil || x.underBinder > 0 {
		return mkB2I(b)
	}
	if st.memo == nil {
		st.memo = map[string]string{}
	}
	if c, ok := st.memo["b2i|"+b]; ok {
		return c
	}
	c := x.d.fresh("bi", sInt)
	st.assume(mkAnd(mkEq(c, mkB2I(b)), mkCmp("<=", "0", c), mkCmp("<=", c, "255")))
	st.memo["b2i|"+b] = c
	return c
}

// needSeqSlice: head/tail of byte-sequence abstractions, tied to slicing.
func (x *Exec) needSeqSlice() {
	x.needSeq()
	if x.d.seen["seqhead"] {
		return
	}
	x.d.fun("seqhead", []string{"Bytes", sInt}, "Bytes")
	x.d.fun("seqtail", []string{"Bytes", sInt}, "Bytes")
	x.axioms = append(x.axioms,
		"(forall ((a (Array Int (_ BitVec 8))) (o Int) (l Int) (n Int)) (! (=> (and (<= 0 n) (<= n l)) (= (seqhead (seq a o l) n) (seq a o n))) :pattern ((seqhead (seq a o l) n))))",
		"(forall ((a (Array Int (_ BitVec 8))) (o Int) (l Int) (n Int)) (! (=> (and (<= 0 n) (<= n l)) (= (seqtail (seq a o l) n) (seq a (+ o n) (- l n)))) :pattern ((seqtail (seq a o l) n))))")
}

// variantB writes a copy of the VC with the bare-mod definitions of the wrap
// macros and returns its path ("" when the file has no macro block).
func variantB(file string) string {
	b, err := os.ReadFile(file)
	if err != nil {
		return ""
	}
	s := string(b)
	i := strings.Index(s, wrapMarkBegin)
	j := strings.Index(s, wrapMarkEnd)
	if i < 0 || j < i || !strings.Contains(s[j:], "(wrap_") {
		return ""
	}
	out := s[:i] + wrapMarkBegin + wrapDefs("B") + s[j:]
	fb := strings.TrimSuffix(file, ".smt2") + ".b.smt2"
	if os.WriteFile(fb, []byte(out), 0o644) != nil {
		return ""
	}
	return fb
}

// variantC writes a copy of the VC without the typing facts of the entry heaps (the
// lines marked "; wf").  Dropping hypotheses is sound; on quantifier-heavy goals the
// typing facts were seen to send every solver into a time-out that the same goal
// without them does not have.
func variantC(file string) string {
	b, err := os.ReadFile(file)
	if err != nil {
		return ""
	}
	s := string(b)
	if !strings.Contains(s, ") ; wf\n") {
		return ""
	}
	var sb strings.Builder
	for _, l := range strings.SplitAfter(s, "\n") {
		if strings.HasSuffix(l, ") ; wf\n") {
			continue
		}
		sb.WriteString(l)
	}
	fc := strings.TrimSuffix(file, ".smt2") + ".c.smt2"
	if os.WriteFile(fc, []byte(sb.String()), 0o644) != nil {
		return ""
	}
	return fc
}

package main

// Incremental feasibility checks (path pruning).  Pruning only ever removes
// paths whose path condition is unsatisfiable, so it cannot hide an obligation;
// "unknown" keeps the path.

import (
	"bufio"
	"io"
	"os/exec"
	"strings"
)

type Pruner struct {
	cmd      *exec.Cmd
	in       io.WriteCloser
	out      *bufio.Reader
	declared int
	dead     bool
	checks   int
	pruned   int
}

func newPruner() *Pruner {
	bin := "z3-new"
	if _, err := exec.LookPath(bin); err != nil {
		bin = "z3"
	}
	cmd := exec.Command(bin, "-in")
	in, err := cmd.StdinPipe()
	if err != nil {
		return &Pruner{dead: true}
	}
	out, err := cmd.StdoutPipe()
	if err != nil {
		return &Pruner{dead: true}
	}
	cmd.Stderr = nil
	if err := cmd.Start(); err != nil {
		return &Pruner{dead: true}
	}
	p := &Pruner{cmd: cmd, in: in, out: bufio.NewReader(out)}
	pre := strings.Replace(prelude, "(set-option :produce-models true)\n", "", 1)
	io.WriteString(in, "(set-option :timeout 400)\n"+pre+wrapDefs("A"))
	return p
}

func (p *Pruner) close() {
	if p.dead || p.cmd == nil {
		return
	}
	p.in.Close()
	p.cmd.Process.Kill()
	p.cmd.Wait()
	p.dead = true
}

// feasible reports false only if the conjunction of hyps is unsatisfiable.
func (p *Pruner) feasible(x *Exec, hyps []string) bool {
	if p == nil || p.dead {
		return true
	}
	var sb strings.Builder
	for ; p.declared < len(x.d.order); p.declared++ {
		sb.WriteString(x.d.order[p.declared])
		sb.WriteByte('\n')
	}
	sb.WriteString("(push)\n")
	for _, h := range hyps {
		// quantified facts are left out: an unsatisfiable subset still proves the
		// path infeasible, and quantifier-free checks answer at once (with them
		// every check ran into the time limit on functions with deep invariants)
		if (strings.Contains(h, "(forall ") || strings.Contains(h, "(exists ")) && !x.boundedRun && x.bounded == 0 {
			// (bounded runs keep them: their bounding assumptions are quantified and
			// are what keeps the unrolled loops finite)
			continue
		}
		sb.WriteString("(assert " + h + ")\n")
	}
	sb.WriteString("(check-sat)\n(pop)\n")
	if _, err := io.WriteString(p.in, sb.String()); err != nil {
		p.dead = true
		return true
	}
	p.checks++
	for {
		line, err := p.out.ReadString('\n')
		if err != nil {
			p.dead = true
			return true
		}
		line = strings.TrimSpace(line)
		switch {
		case line == "unsat":
			p.pruned++
			return false
		case line == "sat" || line == "unknown":
			return true
		case strings.HasPrefix(line, "(error"):
			// keep reading: check-sat result still follows unless the error was fatal
			if strings.Contains(line, "unknown constant") || strings.Contains(line, "unknown sort") || strings.Contains(line, "invalid") {
				// the assertion was rejected; the following check-sat would be meaningless
				// but still prints a result; consume it
				continue
			}
		}
	}
}

// prunable: the state's path condition is known to be unsatisfiable.
func (x *Exec) prunable(st *State) bool {
	if st.infeasible() {
		return true
	}
	if x.pruner == nil {
		return false
	}
	return !x.pruner.feasible(x, st.pcList())
}

package main

// Loop cutting at inductive invariants, and the static write-set scan that
// decides what is havocked for the arbitrary iteration.

import (
	"go/token"
	"fmt"
	"go/types"
	"sort"
	"strings"

	"golang.org/x/tools/go/ssa"
)

type writeSet struct {
	cells map[*Cell]bool
	heaps map[string]string // name -> sort
	all   bool
	ghosts map[string]bool
}

func newWriteSet() *writeSet {
	return &writeSet{cells: map[*Cell]bool{}, heaps: map[string]string{}, ghosts: map[string]bool{}}
}

func (x *Exec) loopKey(fr *Frame, ord int) string { return fmt.Sprintf("%s%d", fr.loopPfx, ord) }

func (x *Exec) loopSpec(fr *Frame, ord int) *LoopSpec {
	if fr.contract == nil {
		return nil
	}
	return fr.contract.Loops[x.loopKey(fr, ord)]
}

// atLoopHeader is called when control reaches a loop header.  It returns
// false when the path ends here (back edge of a cut loop).
func (x *Exec) atLoopHeader(st *State, fr *Frame, h *ssa.BasicBlock, ord int, prev *ssa.BasicBlock, li *loopInfo) bool {
	spec := x.loopSpec(fr, ord)
	key := x.loopKey(fr, ord)
	isBack := prev != nil && li.body[h][prev]
	if x.probing {
		return !isBack
	}
	if x.boundedRun {
		// bounded stand-in run: every loop fully unrolled; an execution with
		// more iterations than the bound must be impossible under the
		// contract's bounding assumptions (obligation, so the run is complete
		// within the bound)
		al := fr.active[h]
		if !isBack || al == nil {
			fr.active[h] = &activeLoop{header: h}
			return true
		}
		al.iters++
		if al.iters > x.boundN {
			x.oblige(st, "bounded-unroll", key, tFalse, firstPos(h))
			return false
		}
		return true
	}
	if x.bounded > 0 {
		// bounded concretisation (failing-input search only): no invariants,
		// loops unrolled up to the bound, longer executions are cut off
		al := fr.active[h]
		if !isBack || al == nil {
			fr.active[h] = &activeLoop{header: h}
			return true
		}
		al.iters++
		if al.iters > x.bounded {
			st.assume(tFalse)
			return false
		}
		return true
	}
	if spec == nil || spec.Unroll > 0 {
		bound := 0
		if spec != nil {
			bound = spec.Unroll
		}
		if bound == 0 {
			unsupported("loop %s in %s (%s) has no invariant", key, fr.fn.String(), x.posString(firstPos(h)))
		}
		al := fr.active[h]
		if !isBack || al == nil {
			fr.active[h] = &activeLoop{header: h, spec: spec}
			return true
		}
		al.iters++
		if al.iters > bound {
			// more iterations than the declared bound must be impossible
			x.oblige(st, "unroll", key, tFalse, firstPos(h))
			return false
		}
		return true
	}
	env := x.frameEnv(st, fr, nil)
	if isBack {
		al := fr.active[h]
		if al == nil {
			unsupported("back edge into loop %s that was not entered", key)
		}
		env.pre = al.entry
		for _, inv := range spec.Invariants {
			x.oblige(st, "inv-keep", key+":"+inv.Label, env.evalBool(inv.E), firstPos(h))
		}
		if spec.Decreases != nil {
			cur := env.eval(spec.Decreases.E)
			x.oblige(st, "dec", key, mkAnd(mkCmp("<", x.toInt(st, cur), al.decVal), mkCmp("<=", "0", al.decVal)), firstPos(h))
		}
		// per-iteration frame: heaps with a declared footprint changed only inside it
		for _, name := range sortedKeys(al.framed) {
			fp := al.framed[name]
			cur := st.heaps[name]
			if cur == fp.start {
				continue
			}
			x.oblige(st, "loop-frame", key+":"+name, x.frameFormula(name, cur, fp.start, fp, al.entry.alloc), firstPos(h))
		}
		return false
	}
	// entry edge
	entry := st.clone()
	env.pre = entry
	for _, inv := range spec.Invariants {
		x.oblige(st, "inv-init", key+":"+inv.Label, env.evalBool(inv.E), firstPos(h))
	}
	ws := newWriteSet()
	x.scanBlocks(st, fr, fr.fn, li.body[h], ws, 0)
	// declared footprints are evaluated in the loop-entry state
	framed := map[string]*footprint{}
	if len(spec.Assigns) > 0 {
		for name := range ws.heaps {
			if strings.HasPrefix(name, "IT$") {
				continue // the iteration ghost of a range-over-map loop is the loop's own state
			}
			if fp :=x.footprintFor(env, spec.Assigns, name); fp != nil {
				framed[name] = fp
			}
		}
	}
	x.havocWriteSet(st, ws, key)
	for _, name := range sortedKeys(framed) {
		fp := framed[name]
		pre := entry.heaps[name]
		if pre == "" {
			pre = x.heapTerm(entry, name, ws.heaps[name])
		}
		// arbitrary earlier iterations changed the heap only inside the footprint
		st.assume(x.frameFormula(name, st.heaps[name], pre, fp, entry.alloc))
		fp.start = st.heaps[name]
	}
	al := &activeLoop{header: h, entry: entry, spec: spec, framed: framed}
	fr.active[h] = al
	env2 := x.frameEnv(st, fr, nil)
	env2.pre = entry
	for _, inv := range spec.Invariants {
		st.assume(env2.evalBool(inv.E))
	}
	if spec.Decreases != nil {
		al.decVal = x.toInt(st, env2.eval(spec.Decreases.E))
	}
	// vacuity guard: invariant (and guard) satisfiable
	if x.coverBudget("loop-" + key) {
		x.obls = append(x.obls, &Obligation{Name: fmt.Sprintf("%s#cover:loop-%s@%d", x.unit, key, len(x.obls)), Unit: x.unit, Kind: "cover", Label: "loop-" + key, Hyps: st.pcList(), Goal: tTrue, Cover: true})
	}
	return true
}

func firstPos(b *ssa.BasicBlock) (p token.Pos) {
	for _, ins := range b.Instrs {
		if ins.Pos().IsValid() {
			return ins.Pos()
		}
	}
	return 0
}

func (x *Exec) havocWriteSet(st *State, ws *writeSet, why string) {
	if ws.all {
		for _, name := range heapNames(st.heaps) {
			x.setHeap(st, name, x.d.fresh("lp."+name, x.heapSorts[name]))
		}
	}
	var cells []*Cell
	for c := range ws.cells {
		cells = append(cells, c)
	}
	sort.Slice(cells, func(i, j int) bool { return cells[i].id < cells[j].id })
	for _, c := range cells {
		cv, ok := st.cells[c]
		if !ok {
			continue
		}
		if cv.K == KFunc && cv.Fn != nil {
			continue // closures assigned once; keep
		}
		if cv.K == KArray && cv.Rid != "" {
			at := cv.T.Underlying().(*types.Array)
			x.setRegion(st, cv.Rid, at.Elem(), x.d.fresh("lp."+c.name, x.tc.sortOf(cv.T)))
			continue
		}
		st.cells[c] = x.symbolicLike(st, cv, "lp."+c.name)
	}
	for _, g := range sortedKeys(ws.ghosts) {
		if old, ok := st.ghost[g]; ok {
			st.ghost[g] = x.freshLike(st, old, "lp.ghost."+g)
		}
	}
	names := make([]string, 0, len(ws.heaps))
	for n := range ws.heaps {
		names = append(names, n)
	}
	sort.Strings(names)
	for _, n := range names {
		x.heapTerm(st, n, ws.heaps[n])
		x.setHeap(st, n, x.d.fresh("lp."+n, ws.heaps[n]))
	}
}

// symbolicLike havocs a cell value, keeping the shape of pointers (a pointer
// variable that only ever holds one target keeps it).
func (x *Exec) symbolicLike(st *State, cv Value, name string) Value {
	switch cv.K {
	case KPtr:
		return cv
	case KStruct:
		out := Value{K: KStruct, T: cv.T}
		for i, f := range cv.Fields {
			out.Fields = append(out.Fields, x.symbolicLike(st, f, fmt.Sprintf("%s.%d", name, i)))
		}
		return out
	case KIface:
		v := x.symbolic(st, cv.T, name)
		return v
	}
	return x.symbolic(st, cv.T, name)
}

// scanBlocks collects the cells and heaps that instructions in blocks may write.
func (x *Exec) scanBlocks(st *State, fr *Frame, fn *ssa.Function, blocks map[*ssa.BasicBlock]bool, ws *writeSet, depth int) {
	for _, b := range fn.Blocks {
		if blocks != nil && !blocks[b] {
			continue
		}
		for _, ins := range b.Instrs {
			x.scanInstr(st, fr, ins, ws, depth)
		}
	}
}

func (x *Exec) scanFunc(st *State, fr *Frame, fn *ssa.Function, binds []Value, ws *writeSet, depth int) {
	if depth > 8 || len(fn.Blocks) == 0 {
		return
	}
	// temporary frame view for free variables
	f2 := &Frame{fn: fn, regs: map[ssa.Value]Value{}, vars: map[string]Value{}, parent: fr}
	for i, fv := range fn.FreeVars {
		if i < len(binds) {
			f2.regs[fv] = binds[i]
		}
	}
	x.scanBlocks(st, f2, fn, nil, ws, depth+1)
}

func (x *Exec) scanAddr(st *State, fr *Frame, a ssa.Value, ws *writeSet) {
	switch a := a.(type) {
	case *ssa.Alloc:
		if v, ok := fr.regs[a]; ok {
			if v.K == KPtr && v.B == BCell {
				ws.cells[v.Cell] = true
			} else if v.K == KRef {
				x.scanHeapOfType(pointee(a.Type()), ws)
			}
		} else if a.Heap && x.isStructLike(pointee(a.Type())) {
			// allocated inside the scanned region: fresh object, but its
			// writes go to the shared field heaps
			x.scanHeapOfType(pointee(a.Type()), ws)
		}
	case *ssa.FreeVar, *ssa.Parameter:
		if v, ok := fr.regs[a]; ok {
			switch {
			case v.K == KPtr && v.B == BCell:
				ws.cells[v.Cell] = true
			case v.K == KRef:
				x.scanHeapOfType(pointee(v.T), ws)
			case v.K == KPtr && v.B == BObj:
				x.scanHeapOfType(v.ObjT, ws)
			case v.K == KPtr && v.B == BElem:
				n, s := x.elemHeapName(v.ObjT)
				ws.heaps[n] = s
			}
		} else {
			x.scanHeapOfType(pointee(a.Type()), ws)
		}
	case *ssa.Global:
		ws.cells[x.globalCell(a)] = true
	case *ssa.FieldAddr:
		// base resolves to a local cell?
		if root, ok := x.rootAlloc(fr, a.X); ok {
			x.scanAddr(st, fr, root, ws)
			return
		}
		pt := pointee(a.X.Type())
		if pt != nil && x.isStructLike(pt) {
			n, s := x.fieldHeapName(pt, a.Field)
			ws.heaps[n] = s
		}
	case *ssa.IndexAddr:
		switch t := a.X.Type().Underlying().(type) {
		case *types.Slice:
			n, s := x.elemHeapName(t.Elem())
			ws.heaps[n] = s
		case *types.Pointer:
			if root, ok := x.rootAlloc(fr, a.X); ok {
				x.scanAddr(st, fr, root, ws)
				// region-backed arrays live in the element heap
				if at, ok := t.Elem().Underlying().(*types.Array); ok {
					n, s := x.elemHeapName(at.Elem())
					ws.heaps[n] = s
				}
				return
			}
			x.scanAddr(st, fr, a.X, ws)
		}
	default:
		// pointer held in a variable / returned by a call
		pt := pointee(a.Type())
		if pt == nil {
			return
		}
		if x.isStructLike(pt) {
			x.scanHeapOfType(pt, ws)
			return
		}
		n, s := x.opaqueHeap(pt)
		ws.heaps[n] = s
		// it may also point to a local whose address was taken: be conservative
		x.note("store through pointer variable inside a loop: address-taken locals of type %v are not havocked", pt)
	}
}

func (x *Exec) rootAlloc(fr *Frame, v ssa.Value) (ssa.Value, bool) {
	for {
		switch a := v.(type) {
		case *ssa.Alloc:
			if rv, ok := fr.regs[a]; ok && rv.K == KPtr && rv.B == BCell {
				return a, true
			}
			if !a.Heap || !x.isStructLike(pointee(a.Type())) {
				return a, true
			}
			return nil, false
		case *ssa.FieldAddr:
			v = a.X
		case *ssa.IndexAddr:
			if _, ok := a.X.Type().Underlying().(*types.Pointer); ok {
				v = a.X
			} else {
				return nil, false
			}
		case *ssa.FreeVar:
			if rv, ok := fr.regs[a]; ok && rv.K == KPtr && rv.B == BCell {
				return a, true
			}
			return nil, false
		default:
			return nil, false
		}
	}
}

func (x *Exec) scanHeapOfType(t types.Type, ws *writeSet) {
	if t == nil {
		return
	}
	if !x.isStructLike(t) {
		n, s := x.opaqueHeap(t)
		ws.heaps[n] = s
		return
	}
	stt := t.Underlying().(*types.Struct)
	for i := 0; i < stt.NumFields(); i++ {
		n, s := x.fieldHeapName(t, i)
		ws.heaps[n] = s
	}
}

func (x *Exec) scanInstr(st *State, fr *Frame, ins ssa.Instruction, ws *writeSet, depth int) {
	switch ins := ins.(type) {
	case *ssa.Store:
		x.scanAddr(st, fr, ins.Addr, ws)
	case *ssa.MapUpdate:
		mt := ins.Map.Type().Underlying().(*types.Map)
		pn, ps, vn, vs := x.mapHeapNames(mt)
		ws.heaps[pn] = ps
		ws.heaps[vn] = vs
		ln, ls := x.mapLenHeap()
		ws.heaps[ln] = ls
	case *ssa.Range:
		if mt, ok := ins.X.Type().Underlying().(*types.Map); ok {
			n, s := x.iterHeap(mt.Key())
			ws.heaps[n] = s
		}
	case *ssa.Next:
		if !ins.IsString {
			if r, ok := ins.Iter.(*ssa.Range); ok {
				if mt, ok := r.X.Type().Underlying().(*types.Map); ok {
					n, s := x.iterHeap(mt.Key())
					ws.heaps[n] = s
				}
			}
		}
	case *ssa.Slice:
		// slicing a local array moves it into the element heap
		if pt, ok := ins.X.Type().Underlying().(*types.Pointer); ok {
			if at, ok := pt.Elem().Underlying().(*types.Array); ok {
				n, s := x.elemHeapName(at.Elem())
				ws.heaps[n] = s
			}
		}
	case *ssa.MakeSlice:
		n, s := x.elemHeapName(ins.Type().Underlying().(*types.Slice).Elem())
		ws.heaps[n] = s
	case *ssa.MakeMap:
		mt := ins.Type().Underlying().(*types.Map)
		pn, ps, _, _ := x.mapHeapNames(mt)
		ws.heaps[pn] = ps
		ln, ls := x.mapLenHeap()
		ws.heaps[ln] = ls
	case *ssa.Alloc:
		if ins.Heap && x.isStructLike(pointee(ins.Type())) {
			x.scanHeapOfType(pointee(ins.Type()), ws)
		}
	case *ssa.Convert:
		// []byte(string) allocates a region
		if sl, ok := ins.Type().Underlying().(*types.Slice); ok {
			n, s := x.elemHeapName(sl.Elem())
			ws.heaps[n] = s
		}
	case *ssa.Call:
		x.scanCall(st, fr, ins.Common(), ws, depth)
	case *ssa.Defer:
		x.scanCall(st, fr, ins.Common(), ws, depth)
	case *ssa.Go:
		x.scanCall(st, fr, ins.Common(), ws, depth)
	}
}

func (x *Exec) scanCall(st *State, fr *Frame, call *ssa.CallCommon, ws *writeSet, depth int) {
	if call.IsInvoke() {
		key := ifaceMethodKey(call.Value.Type(), call.Method)
		if c := x.contractOf(key); c != nil {
			x.scanContractAssigns(c, key, nil, ws)
			return
		}
		if !isPureKey(key) {
			x.scanHavocArgs(call.Args, ws)
			if v, ok := fr.regs[call.Value]; ok && v.Dyn != nil {
				x.scanHavocType(v.Dyn.T, ws)
			}
		}
		return
	}
	switch v := call.Value.(type) {
	case *ssa.Builtin:
		switch v.Name() {
		case "append", "copy":
			if sl, ok := call.Args[0].Type().Underlying().(*types.Slice); ok {
				n, s := x.elemHeapName(sl.Elem())
				ws.heaps[n] = s
			}
		case "delete":
			mt := call.Args[0].Type().Underlying().(*types.Map)
			pn, ps, _, _ := x.mapHeapNames(mt)
			ws.heaps[pn] = ps
			ln, ls := x.mapLenHeap()
			ws.heaps[ln] = ls
		}
		return
	case *ssa.Function:
		x.scanStaticCallee(st, fr, v, nil, call.Args, ws, depth)
		return
	case *ssa.MakeClosure:
		fn := v.Fn.(*ssa.Function)
		var binds []Value
		for _, b := range v.Bindings {
			if bv, ok := fr.regs[b]; ok {
				binds = append(binds, bv)
			} else {
				binds = append(binds, Value{})
			}
		}
		x.scanStaticCallee(st, fr, fn, binds, call.Args, ws, depth)
		return
	}
	// function value: known closure in a register or cell?
	if fv, ok := x.scanFuncValue(st, fr, call.Value); ok {
		x.scanStaticCallee(st, fr, fv.Fn, fv.Binds, call.Args, ws, depth)
		return
	}
	// value of a named function type / package-level function variable under contract
	if n, ok := call.Value.Type().(*types.Named); ok {
		if c := x.contractOf(qualName(n)); c != nil {
			x.scanContractAssigns(c, qualName(n), nil, ws)
			return
		}
	}
	if u, ok := call.Value.(*ssa.UnOp); ok {
		if g, ok := u.X.(*ssa.Global); ok && g.Pkg != nil {
			if c := x.contractOf(g.Pkg.Pkg.Path() + "." + g.Name()); c != nil {
				x.scanContractAssigns(c, g.Pkg.Pkg.Path()+"."+g.Name(), nil, ws)
				return
			}
		}
	}
	x.scanHavocArgs(call.Args, ws)
}

func (x *Exec) scanFuncValue(st *State, fr *Frame, v ssa.Value) (Value, bool) {
	if rv, ok := fr.regs[v]; ok && rv.K == KFunc && rv.Fn != nil {
		return rv, true
	}
	if u, ok := v.(*ssa.UnOp); ok {
		if pv, ok := fr.regs[u.X]; ok && pv.K == KPtr && pv.B == BCell {
			if cv, ok := st.cells[pv.Cell]; ok && cv.K == KFunc && cv.Fn != nil {
				return cv, true
			}
		}
	}
	if p, ok := v.(*ssa.Parameter); ok {
		if rv, ok := fr.regs[p]; ok && rv.K == KFunc && rv.Fn != nil {
			return rv, true
		}
	}
	return Value{}, false
}

func (x *Exec) scanStaticCallee(st *State, fr *Frame, fn *ssa.Function, binds []Value, args []ssa.Value, ws *writeSet, depth int) {
	key := funcKey(fn)
	c := x.contractOf(key)
	if c != nil && !c.Inline {
		x.scanContractAssigns(c, key, fn, ws)
		// callbacks the callee iterates: what the closure writes is written
		for _, it := range c.Iterates {
			for i, p := range fn.Params {
				if p.Name() != it.Param || i >= len(args) {
					continue
				}
				if av, ok := x.scanFuncValue(st, fr, args[i]); ok {
					x.scanFunc(st, fr, av.Fn, av.Binds, ws, depth+1)
				} else if mc, ok := args[i].(*ssa.MakeClosure); ok {
					var bs []Value
					for _, b := range mc.Bindings {
						bs = append(bs, fr.regs[b])
					}
					x.scanFunc(st, fr, mc.Fn.(*ssa.Function), bs, ws, depth+1)
				} else {
					ws.all = true
				}
			}
		}
		return
	}
	if _, ok := models[key]; ok {
		if eff, ok := modelEffects[key]; ok {
			eff(x, fn, ws)
		}
		return
	}
	inline := (c != nil && c.Inline) || fn.Parent() != nil || (fn.Synthetic != "" && len(fn.Blocks) > 0) || (c == nil && x.autoInline(fr, fn))
	if inline {
		// function-valued arguments (callbacks) are bound so that the callee's
		// calls through its parameters are scanned too
		f2 := &Frame{fn: fn, regs: map[ssa.Value]Value{}, vars: map[string]Value{}, parent: fr}
		for i, fv := range fn.FreeVars {
			if i < len(binds) {
				f2.regs[fv] = binds[i]
			}
		}
		for i, p := range fn.Params {
			if i < len(args) {
				if av, ok := x.scanFuncValue(st, fr, args[i]); ok {
					f2.regs[p] = av
				} else if mc, ok := args[i].(*ssa.MakeClosure); ok {
					var bs []Value
					for _, b := range mc.Bindings {
						bs = append(bs, fr.regs[b])
					}
					f2.regs[p] = Value{K: KFunc, Fn: mc.Fn.(*ssa.Function), Binds: bs}
				} else if rv, ok := fr.regs[args[i]]; ok {
					f2.regs[p] = rv
				}
			}
		}
		if depth > 8 {
			ws.all = true
			return
		}
		x.scanBlocks(st, f2, fn, nil, ws, depth+1)
		return
	}
	if !isPureKey(key) {
		x.scanHavocArgs(args, ws)
	}
}

func (x *Exec) scanHavocArgs(args []ssa.Value, ws *writeSet) {
	for _, a := range args {
		x.scanHavocType(a.Type(), ws)
	}
}

func (x *Exec) scanHavocType(t types.Type, ws *writeSet) {
	switch u := t.Underlying().(type) {
	case *types.Pointer:
		x.scanHeapOfType(u.Elem(), ws)
	case *types.Slice:
		n, s := x.elemHeapName(u.Elem())
		ws.heaps[n] = s
	}
}

func (x *Exec) scanContractAssigns(c *FuncContract, key string, fn *ssa.Function, ws *writeSet) {
	for _, a := range c.Assigns {
		switch a.Kind {
		case "all":
			ws.all = true
		case "target":
			ws.all = true
		case "ghost":
			ws.ghosts[a.Heap] = true
		case "heap":
			env := &SpecEnv{x: x, pkg: x.pkgOfKey(key, fn)}
			name := x.resolveHeapName(env, a.Heap)
			ws.heaps[name] = x.heapSorts[name]
		case "field":
			// need the static type of the object expression: resolve through the signature
			env := &SpecEnv{x: x, pkg: x.pkgOfKey(key, fn)}
			t := env.staticTypeOf(a.E, fn, c)
			if t == nil {
				ws.all = true
				continue
			}
			if p := pointee(t); p != nil {
				t = p
			}
			idx := fieldIndex(t, a.Field)
			if idx < 0 {
				ws.all = true
				continue
			}
			n, s := x.fieldHeapName(t, idx)
			ws.heaps[n] = s
		case "elems", "region":
			env := &SpecEnv{x: x, pkg: x.pkgOfKey(key, fn)}
			t := env.staticTypeOf(a.E, fn, c)
			if sl, ok := t.Underlying().(*types.Slice); ok && t != nil {
				n, s := x.elemHeapName(sl.Elem())
				ws.heaps[n] = s
			} else {
				ws.all = true
			}
		}
	}
	_ = strings.TrimSpace
}

package main

import (
	"fmt"
	"go/types"
	"strings"
)

// initHeapWF states, once per heap, the typing facts Go guarantees for every
// value stored in the heap at unit entry: references and slice regions that
// already exist are below the entry allocation counter, slice extents are
// well-formed.  (Closed formulas about the "@0" heap constants.)
func (x *Exec) initHeapWF(name string, t types.Type, twoLevel bool) {
	if x.wfHeaps[name] {
		return
	}
	x.wfHeaps[name] = true
	if x.heapTypes == nil {
		x.heapTypes = map[string]heapType{}
	}
	x.heapTypes[name] = heapType{t: t, two: twoLevel}
	h := sanitize(name) + "@0"
	var sel, bind string
	if twoLevel {
		bind = "((r!w Int) (i!w Int))"
		sel = "(select (select " + h + " r!w) i!w)"
	} else {
		bind = "((r!w Int))"
		sel = "(select " + h + " r!w)"
	}
	body := x.wfTerm(t, sel, 0)
	if body == "" || body == tTrue {
		return
	}
	// only for objects / regions that exist at entry: the entry heap at
	// not-yet-allocated references is the oracle for what callees under
	// contract will allocate there, and must stay unconstrained
	x.lateAxioms = append(x.lateAxioms, lateAxiom{heap: h, sort: "", term: fmt.Sprintf("(forall %s (! (=> (and (<= 0 r!w) (< r!w alloc0)) %s) :pattern (%s)))", bind, body, sel)})
}

type lateAxiom struct{ heap, sort, term string }

// heapElemTypes remembers the Go type stored in each heap (set by initHeapWF).
// assumeHeapWF states the typing facts for a freshly havocked heap term: whatever it
// holds at references below the current allocation counter is well-typed with respect
// to that counter (references it stores exist already).
func (x *Exec) assumeHeapWF(st *State, name, term string) {
	ht, ok := x.heapTypes[name]
	if !ok {
		return
	}
	var sel, bind string
	if ht.two {
		bind = "((r!w Int) (i!w Int))"
		sel = "(select (select " + term + " r!w) i!w)"
	} else {
		bind = "((r!w Int))"
		sel = "(select " + term + " r!w)"
	}
	body := strings.ReplaceAll(x.wfTerm(ht.t, sel, 0), "alloc0", st.alloc)
	if body == "" || body == tTrue {
		return
	}
	st.assume(fmt.Sprintf("(forall %s (! (=> (and (<= 0 r!w) (< r!w %s)) %s) :pattern (%s)))", bind, st.alloc, body, sel))
}

type heapType struct {
	t   types.Type
	two bool
}

// wfTerm: the well-formedness condition of a value of type t given as term.
func (x *Exec) wfTerm(t types.Type, term string, depth int) string {
	if depth > 2 {
		return tTrue
	}
	switch x.tc.kindOf(t) {
	case KSlice:
		rid, off, ln, cp := "(s_rid "+term+")", "(s_off "+term+")", "(s_len "+term+")", "(s_cap "+term+")"
		return mkAnd(mkCmp("<=", "0", rid), mkCmp("<", rid, "alloc0"), mkCmp("<=", "0", off), mkCmp("<=", "0", ln), mkCmp("<=", ln, cp),
			mkCmp("<=", mkAdd(off, cp), maxSliceLen), mkImp(mkEq(rid, "0"), mkEq(cp, "0")))
	case KRef, KMap, KIface, KChan:
		return mkAnd(mkCmp("<=", "0", term), mkCmp("<", term, "alloc0"))
	case KInt:
		if bits, signed, ok := intInfo(t); ok {
			return inRange(term, bits, signed)
		}
	case KStruct:
		st, ok := t.Underlying().(*types.Struct)
		if !ok {
			return tTrue
		}
		name := x.tc.sortOf(t)
		var cs []string
		for i := 0; i < st.NumFields(); i++ {
			cs = append(cs, x.wfTerm(st.Field(i).Type(), fmt.Sprintf("(%s_f%d %s)", name, i, term), depth+1))
		}
		return mkAnd(cs...)
	}
	return tTrue
}

type writeRec struct{ a, b string } // a: ref / region id, b: element index ("" = whole slot)

// setHeap installs a new heap term; large terms are named by a fresh constant
// (keeps VCs small and gives the solvers' E-matching a stable handle).  The
// written location is recorded (auto-frame lemmas at function exit).
func (x *Exec) setHeap(st *State, name, term string) {
	cur := st.heaps[name]
	known := false
	if p := splitTop(term); len(p) == 4 && p[0] == "store" && p[1] == cur && cur != "" {
		rec := writeRec{a: p[2]}
		if q := splitTop(p[3]); len(q) == 4 && q[0] == "store" && q[1] == mkSelect(cur, p[2]) {
			rec.b = q[2]
		}
		if st.writes == nil {
			st.writes = map[string][]writeRec{}
		}
		st.writes[name] = append(append([]writeRec(nil), st.writes[name]...), rec)
		known = true
	}
	if !known {
		if st.noframe == nil {
			st.noframe = map[string]bool{}
		}
		st.noframe[name] = true
	}
	if len(term) > 160 {
		if sort, ok := x.heapSorts[name]; ok {
			c := x.d.fresh("h."+name, sort)
			st.assume(mkEq(c, term))
			term = c
		}
	}
	st.heaps[name] = term
}

// autoFrame: for every heap written on this path only at recorded locations,
// the lemma "everything else is as at entry" (a consequence of the store
// chain; also emitted as an obligation so that it is checked, not trusted).
func (x *Exec) autoFrame(st *State) []string {
	var out []string
	for _, name := range heapNames(st.heaps) {
		recs := st.writes[name]
		if st.noframe[name] || len(recs) == 0 || len(recs) > 12 {
			continue
		}
		final, init := st.heaps[name], x.initHeapTerm(name)
		if final == init || !x.d.seen[init] {
			continue
		}
		sortS := x.heapSorts[name]
		two := len(sortS) > 22 && sortS[:22] == "(Array Int (Array Int " || (len(sortS) > 17 && sortS[:17] == "(Array Int (Array")
		var ex []string
		if two {
			for _, r := range recs {
				if r.b == "" {
					ex = append(ex, mkEq("r!a", r.a))
				} else {
					ex = append(ex, mkAnd(mkEq("r!a", r.a), mkEq("i!a", r.b)))
				}
			}
			ksort := "Int"
			if i := indexOfKeySort(sortS); i != "" {
				ksort = i
			}
			out = append(out, fmt.Sprintf("(forall ((r!a Int) (i!a %s)) (! (=> %s (= (select (select %s r!a) i!a) (select (select %s r!a) i!a))) :pattern ((select (select %s r!a) i!a))))",
				ksort, mkNot(mkOr(ex...)), final, init, final))
		} else {
			for _, r := range recs {
				ex = append(ex, mkEq("r!a", r.a))
			}
			out = append(out, fmt.Sprintf("(forall ((r!a Int)) (! (=> %s (= (select %s r!a) (select %s r!a))) :pattern ((select %s r!a))))",
				mkNot(mkOr(ex...)), final, init, final))
		}
	}
	return out
}

// indexOfKeySort extracts K from "(Array Int (Array K V))".
func indexOfKeySort(s string) string {
	p := splitTop(s)
	if len(p) == 3 && p[0] == "Array" {
		q := splitTop(p[2])
		if len(q) == 3 && q[0] == "Array" {
			return q[1]
		}
	}
	return ""
}

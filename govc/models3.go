package main

// encoding/binary byte-order models (exact).

import (
	"fmt"
	"go/token"
	"go/types"

	"golang.org/x/tools/go/ssa"
)

func init() {
	for _, order := range []string{"bigEndian", "littleEndian"} {
		for _, n := range []int{2, 4, 8} {
			order, n := order, n
			bits := n * 8
			key := fmt.Sprintf("(encoding/binary.%s).Uint%d", order, bits)
			models[key] = func(x *Exec, st *State, fr *Frame, fn *ssa.Function, args []Value, pos token.Pos) []Outcome {
				b := args[len(args)-1]
				x.safetyCheck(st, "idx", mkCmp("<=", intLit64(int64(n)), b.Len), pos)
				et := b.T.Underlying().(*types.Slice).Elem()
				arr := x.regionTerm(st, b.Rid, et)
				sum := "0"
				for i := 0; i < n; i++ {
					sh := n - 1 - i
					if order == "littleEndian" {
						sh = i
					}
					byteV := mkB2I(mkSelect(arr, mkAdd(b.Off, intLit64(int64(i)))))
					sum = mkAdd(sum, mkMul(byteV, intLit(pow2(8*sh))))
				}
				r := x.d.fresh("u"+fmt.Sprint(bits), sInt)
				st.assume(mkEq(r, sum))
				v := Value{K: KInt, T: fn.Signature.Results().At(0).Type(), S: r}
				x.assumeWF(st, v)
				return single(st, v)
			}
			pkey := fmt.Sprintf("(encoding/binary.%s).PutUint%d", order, bits)
			models[pkey] = func(x *Exec, st *State, fr *Frame, fn *ssa.Function, args []Value, pos token.Pos) []Outcome {
				b, v := args[len(args)-2], args[len(args)-1]
				x.safetyCheck(st, "idx", mkCmp("<=", intLit64(int64(n)), b.Len), pos)
				et := b.T.Underlying().(*types.Slice).Elem()
				for i := 0; i < n; i++ {
					sh := n - 1 - i
					if order == "littleEndian" {
						sh = i
					}
					byteI := "(mod (div " + v.S + " " + intLit(pow2(8*sh)) + ") 256)"
					bv := x.i2b(st, byteI)
					x.storeElem(st, b.Rid, mkAdd(b.Off, intLit64(int64(i))), et, Value{K: KBV8, T: et, S: bv})
				}
				return single(st)
			}
			modelEffects[pkey] = func(x *Exec, fn *ssa.Function, ws *writeSet) {
				n, s := x.elemHeapName(types.Typ[types.Uint8])
				ws.heaps[n] = s
			}
		}
	}
}

func init() {
	// ---- sync/atomic on plain integers: sequential semantics -------------
	for _, ty := range []string{"Int64", "Int32", "Uint64", "Uint32"} {
		ty := ty
		models["sync/atomic.Load"+ty] = func(x *Exec, st *State, fr *Frame, fn *ssa.Function, args []Value, pos token.Pos) []Outcome {
			return single(st, x.load(st, args[0], pos))
		}
		models["sync/atomic.Store"+ty] = func(x *Exec, st *State, fr *Frame, fn *ssa.Function, args []Value, pos token.Pos) []Outcome {
			x.store(st, args[0], args[1], pos)
			return single(st)
		}
		models["sync/atomic.Add"+ty] = func(x *Exec, st *State, fr *Frame, fn *ssa.Function, args []Value, pos token.Pos) []Outcome {
			old := x.load(st, args[0], pos)
			nv := x.binop(st, token.ADD, old, args[1], old.T, pos)
			x.store(st, args[0], nv, pos)
			return single(st, nv)
		}
		eff := func(x *Exec, fn *ssa.Function, ws *writeSet) {
			if p := pointee(fn.Signature.Params().At(0).Type()); p != nil {
				n, s := x.opaqueHeap(p)
				ws.heaps[n] = s
			}
		}
		modelEffects["sync/atomic.Store"+ty] = eff
		modelEffects["sync/atomic.Add"+ty] = eff
	}
}

func init() {
	// ---- go.uber.org/atomic.Uint64 (opaque Int): sequential semantics -----
	u64 := func(fn *ssa.Function) types.Type { return types.Typ[types.Uint64] }
	models["(*go.uber.org/atomic.Uint64).Load"] = func(x *Exec, st *State, fr *Frame, fn *ssa.Function, args []Value, pos token.Pos) []Outcome {
		v := x.load(st, args[0], pos)
		r := Value{K: KInt, T: u64(fn), S: v.S}
		x.assumeWF(st, r)
		return single(st, r)
	}
	models["(*go.uber.org/atomic.Uint64).Store"] = func(x *Exec, st *State, fr *Frame, fn *ssa.Function, args []Value, pos token.Pos) []Outcome {
		t := pointee(args[0].T)
		x.store(st, args[0], Value{K: KOpaque, T: t, S: args[1].S}, pos)
		return single(st)
	}
	models["(*go.uber.org/atomic.Uint64).Inc"] = func(x *Exec, st *State, fr *Frame, fn *ssa.Function, args []Value, pos token.Pos) []Outcome {
		t := pointee(args[0].T)
		v := x.load(st, args[0], pos)
		nv := wrapInt(mkAdd(v.S, "1"), 64, false)
		x.store(st, args[0], Value{K: KOpaque, T: t, S: nv}, pos)
		return single(st, Value{K: KInt, T: u64(fn), S: nv})
	}
}

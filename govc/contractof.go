package main

import (
	"sort"
	"go/token"
	"strings"

	"golang.org/x/tools/go/ssa"
)

// contractOf: package-scoped extern contracts of the unit's package first,
// then the global contract table.
func (x *Exec) contractOf(key string) *FuncContract {
	if x.unitFn != nil && x.unitFn.Pkg != nil {
		file := ""
		if x.unitC != nil {
			file = x.unitC.File
		}
		if m := x.db.Externs[x.unitFn.Pkg.Pkg.Path()+"|"+file]; m != nil {
			if c := m[key]; c != nil {
				return c
			}
		}
	}
	return x.db.Funcs[key]
}

// callAsserts: call-site obligations ("dominance" facts) the unit's contract
// attaches to calls of a named callee: evaluated in the caller's frame, so
// they may mention the caller's locals.
func (x *Exec) callAsserts(st *State, fr *Frame, key string, args []Value, names []string, pos token.Pos) {
	c := fr.contract
	if c == nil || len(c.CallAsserts) == 0 {
		return
	}
	short := shortName(key)
	for calleeK, clauses := range c.CallAsserts {
		// "<callee>#<k>": only the k-th call site (in source order) of that callee in the unit
		callee, ord := calleeK, 0
		if i := strings.LastIndex(calleeK, "#"); i > 0 {
			callee = calleeK[:i]
			for _, ch := range calleeK[i+1:] {
				if ch < '0' || ch > '9' {
					ord = -1
					break
				}
				ord = ord*10 + int(ch-'0')
			}
			if ord <= 0 {
				callee, ord = calleeK, 0
			}
		}
		if callee != short && callee != key && !strings.HasSuffix(key, "."+callee) && !strings.HasSuffix(short, "."+callee) {
			continue
		}
		if ord > 0 && (fr.depth != 0 || x.callOrdinal(fr.fn, callee, pos) != ord) {
			continue
		}
		env := x.frameEnv(st, fr, nil)
		for i, n := range names {
			if i < len(args) && n != "" && n != "_" {
				env.names["$"+n] = args[i]
			}
		}
		for i, a := range args {
			env.names["$"+itoa(i)] = a
		}
		for _, cl := range clauses {
			x.oblige(st, "callsite", calleeK+":"+cl.Label, env.evalBool(cl.E), pos)
		}
	}
}

// autoInline: helpers of the repository itself that have no contract are
// executed in place (their real body) when they are small and loop-free —
// havocking them would turn every harmless helper call into lost precision.
func (x *Exec) autoInline(fr *Frame, fn *ssa.Function) bool {
	if fn.Pkg == nil || len(fn.Blocks) == 0 || isPureKey(funcKey(fn)) {
		return false
	}
	if !strings.HasPrefix(fn.Pkg.Pkg.Path(), "github.com/gauss-project/aurorafs/") {
		return false
	}
	if fr != nil && fr.depth > 5 {
		return false
	}
	if len(loopsOf(fn).headers) > 0 {
		return false
	}
	n := 0
	for _, b := range fn.Blocks {
		n += len(b.Instrs)
		for _, ins := range b.Instrs {
			switch ins.(type) {
			case *ssa.Go, *ssa.Select:
				return false
			}
		}
	}
	if n > 400 {
		return false
	}
	// no recursion through the inline chain
	for f := fr; f != nil; f = f.parent {
		if f.fn == fn {
			return false
		}
	}
	return true
}

// callOrdinal: 1-based index, in source order, of the call at pos among the calls of
// callee in fn (0 if not found).
func (x *Exec) callOrdinal(fn *ssa.Function, callee string, pos token.Pos) int {
	var ps []token.Pos
	for _, b := range fn.Blocks {
		for _, in := range b.Instrs {
			var cc *ssa.CallCommon
			switch c := in.(type) {
			case *ssa.Call:
				cc = c.Common()
			case *ssa.Defer:
				cc = c.Common()
			case *ssa.Go:
				cc = c.Common()
			}
			if cc == nil {
				continue
			}
			key := ""
			if cc.IsInvoke() {
				key = ifaceMethodKey(cc.Value.Type(), cc.Method)
			} else if f := cc.StaticCallee(); f != nil {
				key = funcKey(f)
			}
			short := shortName(key)
			if key == "" || !(callee == short || callee == key || strings.HasSuffix(key, "."+callee) || strings.HasSuffix(short, "."+callee)) {
				continue
			}
			ps = append(ps, in.Pos())
		}
	}
	sort.Slice(ps, func(i, j int) bool { return ps[i] < ps[j] })
	for i, p := range ps {
		if p == pos {
			return i + 1
		}
	}
	return 0
}

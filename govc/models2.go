package main

// Models of interface methods and of the time package, and the abstract
// state store (storage.StateStorer as a map key -> value, per value type).

import (
	"go/token"
	"go/types"
	"strings"

	"golang.org/x/tools/go/ssa"
)

type ifaceModelFn func(x *Exec, st *State, fr *Frame, sig *types.Signature, args []Value, pos token.Pos) []Outcome

var ifaceModels = map[string]ifaceModelFn{}

const stateStorer = "(github.com/gauss-project/aurorafs/pkg/storage.StateStorer)"

// ssHeaps: presence and value heaps of the abstract state store for values of
// Go type t: store ref -> key -> (present, value).
func (x *Exec) ssHeaps(t types.Type) (pname, psort, vname, vsort string) {
	vs := x.tc.sortOf(t)
	tn := sanitize(types.TypeString(t, nil))
	return "SSP", "(Array Int (Array Str Bool))", "SSV$" + tn, "(Array Int (Array Str " + vs + "))"
}

func (x *Exec) ssPresent(st *State, store, key string) string {
	h := x.heapTerm(st, "SSP", "(Array Int (Array Str Bool))")
	return mkSelect(mkSelect(h, store), key)
}

func (x *Exec) ssValue(st *State, store, key string, t types.Type) Value {
	_, _, vn, vs := x.ssHeaps(t)
	h := x.heapTerm(st, vn, vs)
	v := x.tc.unpack(x, t, mkSelect(mkSelect(h, store), key))
	x.assumeWF(st, v)
	return v
}

// targetOf resolves the pointer passed as interface{} (Get's destination,
// Put's value) to (pointer value, pointee type).
func (x *Exec) targetOf(v Value) (Value, types.Type, bool) {
	if v.K == KIface && v.Dyn != nil {
		v = *v.Dyn
	}
	switch v.K {
	case KPtr, KRef:
		if et := pointee(v.T); et != nil {
			return v, et, true
		}
	}
	return Value{}, nil, false
}

func init() {
	// Get(key string, i interface{}) error
	ifaceModels[stateStorer+".Get"] = func(x *Exec, st *State, fr *Frame, sig *types.Signature, args []Value, pos token.Pos) []Outcome {
		store, key, dst := args[0], args[1], args[2]
		p, et, ok := x.targetOf(dst)
		if !ok {
			return nil
		}
		present := x.ssPresent(st, store.S, key.S)
		var val Value
		if inner := pointee(et); inner != nil && x.isStructLike(inner) {
			// decoding into a **T allocates a fresh T holding the stored value
			ref := x.allocRef(st)
			x.storeObject(st, ref, inner, x.ssValue(st, store.S, key.S, inner))
			val = Value{K: KRef, T: et, S: ref}
		} else if inner != nil && x.tc.kindOf(inner) == KOpaque {
			// **big.Int and the like: a fresh object holding the stored value
			ref := x.allocRef(st)
			val = Value{K: KRef, T: et, S: ref}
			x.store(st, val, x.ssValue(st, store.S, key.S, inner), pos)
		} else {
			val = x.ssValue(st, store.S, key.S, et)
		}
		err := x.freshErr(st, "ss.Get.err")
		notFound := x.storageErrNotFound(st)
		// absent => ErrNotFound; present => nil or some other (I/O, decode) error
		st.assume(mkImp(mkNot(present), mkEq(err.S, notFound)))
		st.assume(mkImp(present, mkNot(mkEq(err.S, notFound))))
		// ... and that other error does not wrap ErrNotFound either
		st.assume(mkImp(present, mkNot(x.errIs(st, err.S, notFound))))
		// destination written only on success
		old := x.load(st, p, pos)
		x.store(st, p, x.iteValue(st, mkEq(err.S, "0"), val, old), pos)
		return single(st, err)
	}
	// Put(key string, i interface{}) error
	ifaceModels[stateStorer+".Put"] = func(x *Exec, st *State, fr *Frame, sig *types.Signature, args []Value, pos token.Pos) []Outcome {
		store, key, src := args[0], args[1], args[2]
		var val Value
		var et types.Type
		if p, t, ok := x.targetOf(src); ok {
			val, et = x.load(st, p, pos), t
		} else if src.K == KIface && src.Dyn != nil {
			val, et = *src.Dyn, src.Dyn.T
		} else {
			return nil
		}
		err := x.freshErr(st, "ss.Put.err")
		ok := mkEq(err.S, "0")
		_, _, vn, vs := x.ssHeaps(et)
		ph := x.heapTerm(st, "SSP", "(Array Int (Array Str Bool))")
		vh := x.heapTerm(st, vn, vs)
		x.setHeap(st, "SSP", mkIte(ok, mkStore(ph, store.S, mkStore(mkSelect(ph, store.S), key.S, tTrue)), ph))
		x.setHeap(st, vn, mkIte(ok, mkStore(vh, store.S, mkStore(mkSelect(vh, store.S), key.S, x.tc.pack(x, val))), vh))
		return single(st, err)
	}
	// Delete(key string) error
	ifaceModels[stateStorer+".Delete"] = func(x *Exec, st *State, fr *Frame, sig *types.Signature, args []Value, pos token.Pos) []Outcome {
		store, key := args[0], args[1]
		err := x.freshErr(st, "ss.Delete.err")
		ok := mkEq(err.S, "0")
		ph := x.heapTerm(st, "SSP", "(Array Int (Array Str Bool))")
		x.setHeap(st, "SSP", mkIte(ok, mkStore(ph, store.S, mkStore(mkSelect(ph, store.S), key.S, tFalse)), ph))
		return single(st, err)
	}

	// ---- time ------------------------------------------------------------
	tm := func(f func(x *Exec, st *State, args []Value, fn *ssa.Function) Value) modelFn {
		return func(x *Exec, st *State, fr *Frame, fn *ssa.Function, args []Value, pos token.Pos) []Outcome {
			return single(st, f(x, st, args, fn))
		}
	}
	resT := func(fn *ssa.Function) types.Type { return fn.Signature.Results().At(0).Type() }
	models["(time.Time).Sub"] = tm(func(x *Exec, st *State, a []Value, fn *ssa.Function) Value {
		// ledger: durations do not saturate (times within +-292 years of each other)
		return Value{K: KInt, T: resT(fn), S: mkSub(a[0].S, a[1].S)}
	})
	models["(time.Time).Add"] = tm(func(x *Exec, st *State, a []Value, fn *ssa.Function) Value {
		return Value{K: KOpaque, T: resT(fn), S: mkAdd(a[0].S, a[1].S)}
	})
	models["(time.Time).After"] = tm(func(x *Exec, st *State, a []Value, fn *ssa.Function) Value {
		return boolV(mkCmp(">", a[0].S, a[1].S))
	})
	models["(time.Time).Before"] = tm(func(x *Exec, st *State, a []Value, fn *ssa.Function) Value {
		return boolV(mkCmp("<", a[0].S, a[1].S))
	})
	models["(time.Time).Equal"] = tm(func(x *Exec, st *State, a []Value, fn *ssa.Function) Value {
		return boolV(mkEq(a[0].S, a[1].S))
	})
	models["(time.Time).IsZero"] = tm(func(x *Exec, st *State, a []Value, fn *ssa.Function) Value {
		return boolV(mkEq(a[0].S, "0"))
	})
	// tickers and timers: the constructors return a fresh non-nil object; Stop touches only it
	for _, k := range []string{"time.NewTicker", "time.NewTimer"} {
		models[k] = func(x *Exec, st *State, fr *Frame, fn *ssa.Function, args []Value, pos token.Pos) []Outcome {
			return single(st, Value{K: KRef, T: fn.Signature.Results().At(0).Type(), S: x.allocRef(st)})
		}
	}
	models["(*time.Ticker).Stop"] = func(x *Exec, st *State, fr *Frame, fn *ssa.Function, args []Value, pos token.Pos) []Outcome {
		return single(st)
	}
	models["(*time.Timer).Stop"] = func(x *Exec, st *State, fr *Frame, fn *ssa.Function, args []Value, pos token.Pos) []Outcome {
		return single(st, x.symbolic(st, types.Typ[types.Bool], "timer.stop"))
	}
	// Duration.String / ParseDuration: inverse pair (ledger: round trip is the identity)
	models["(time.Duration).String"] = tm(func(x *Exec, st *State, a []Value, fn *ssa.Function) Value {
		x.needDurStr()
		return Value{K: KStr, T: resT(fn), S: "(durstr " + a[0].S + ")"}
	})
	models["time.ParseDuration"] = func(x *Exec, st *State, fr *Frame, fn *ssa.Function, args []Value, pos token.Pos) []Outcome {
		x.needDurStr()
		s := args[0].S
		ok := mkEq("(durstr (strdur "+s+"))", s)
		err := x.newErr(st, "ParseDuration.err")
		st.assume(mkEq(mkEq(err.S, "0"), ok))
		d := Value{K: KInt, T: fn.Signature.Results().At(0).Type(), S: mkIte(ok, "(strdur "+s+")", "0")}
		return single(st, d, err)
	}
}

func (x *Exec) needDurStr() {
	if x.d.seen["durstr"] {
		return
	}
	x.d.fun("durstr", []string{sInt}, sStr)
	x.d.fun("strdur", []string{sStr}, sInt)
	x.axioms = append(x.axioms,
		"(forall ((d Int)) (! (= (strdur (durstr d)) d) :pattern ((durstr d))))",
		"(forall ((s Str)) (! (and (<= (- 9223372036854775808) (strdur s)) (<= (strdur s) 9223372036854775807)) :pattern ((strdur s))))")
}

// storageErrNotFound: the value of the package variable storage.ErrNotFound.
func (x *Exec) storageErrNotFound(st *State) string {
	for path, sp := range x.prog.spkgs {
		if strings.HasSuffix(path, "/pkg/storage") {
			if g, ok := sp.Members["ErrNotFound"].(*ssa.Global); ok {
				c := x.globalCell(g)
				v := x.load(st, Value{K: KPtr, T: g.Type(), B: BCell, Cell: c}, token.NoPos)
				return v.S
			}
		}
	}
	unsupported("storage.ErrNotFound not found")
	return ""
}

func (x *Exec) sigOfKey(key string) *types.Signature {
	if fn := x.prog.findFunc(key); fn != nil {
		return fn.Signature
	}
	return nil
}

package main

import (
	"fmt"
	"go/types"
	"strings"
)

// footprint: the part of one heap that an assigns clause allows to change.
type footprint struct {
	whole bool
	refs  []string    // object refs (one-level heaps)
	elems [][3]string // rid, lo, hi (two-level element heaps)
	regions []string  // whole regions (two-level element heaps)
	start string      // heap term at iteration start (loops)
}

// footprintFor evaluates assigns clauses relevant to heap `name` in env.
// Returns nil when no clause mentions the heap (then nothing of it may change,
// for function frames; for loops: full havoc).
func (x *Exec) footprintFor(env *SpecEnv, assigns []AssignSpec, name string) *footprint {
	fp := &footprint{}
	hit := false
	for _, a := range assigns {
		switch a.Kind {
		case "nothing":
			hit = true // explicit empty footprint: only freshly allocated objects change
		case "all":
			fp.whole = true
			hit = true
		case "heap":
			if x.resolveHeapName(env, a.Heap) == name {
				fp.whole = true
				hit = true
			}
		case "target":
			v := env.eval(a.E)
			if v.K == KIface && v.Dyn != nil {
				v = *v.Dyn
			}
			if v.K == KRef {
				if et := pointee(v.T); et != nil {
					if x.isStructLike(et) {
						st := et.Underlying().(*types.Struct)
						for i := 0; i < st.NumFields(); i++ {
							if n, _ := x.fieldHeapName(et, i); n == name {
								fp.refs = append(fp.refs, v.S)
								hit = true
							}
						}
					} else if n, _ := x.opaqueHeap(et); n == name {
						fp.refs = append(fp.refs, v.S)
						hit = true
					}
				}
			}
		case "field":
			obj := env.eval(a.E)
			ref, objT := x.objectOf(obj)
			idx := fieldIndex(objT, a.Field)
			if idx >= 0 {
				n, _ := x.fieldHeapName(objT, idx)
				if n == name {
					fp.refs = append(fp.refs, ref)
					hit = true
				}
			}
		case "elems":
			s := env.eval(a.E)
			if s.K == KSlice {
				n, _ := x.elemHeapName(s.T.Underlying().(*types.Slice).Elem())
				if n == name {
					fp.elems = append(fp.elems, [3]string{s.Rid, s.Off, mkAdd(s.Off, s.Len)})
					hit = true
				}
			}
		case "region":
			s := env.eval(a.E)
			if s.K == KSlice {
				n, _ := x.elemHeapName(s.T.Underlying().(*types.Slice).Elem())
				if n == name {
					fp.regions = append(fp.regions, s.Rid)
					hit = true
				}
			}
		}
	}
	if !hit {
		return nil
	}
	return fp
}

// frameFormula: outside the footprint (and below the allocation bound) the
// heap `final` equals `init`.
func (x *Exec) frameFormula(name, final, init string, fp *footprint, bound string) string {
	if fp != nil && fp.whole {
		return tTrue
	}
	if bound == "0" || bound == "" {
		bound = "alloc0"
	}
	sortS := x.heapSorts[name]
	if strings.HasPrefix(sortS, "(Array Int (Array Int ") && strings.HasPrefix(name, "H$") {
		var ex []string
		if fp != nil {
			for _, e := range fp.elems {
				ex = append(ex, mkAnd(mkEq("r!f", e[0]), mkCmp("<=", e[1], "i!f"), mkCmp("<", "i!f", e[2])))
			}
			for _, r := range fp.regions {
				ex = append(ex, mkEq("r!f", r))
			}
		}
		return fmt.Sprintf("(forall ((r!f Int) (i!f Int)) (=> (and (< 0 r!f) (< r!f %s) %s) (= (select (select %s r!f) i!f) (select (select %s r!f) i!f))))",
			bound, mkNot(mkOr(ex...)), final, init)
	}
	var ex []string
	if fp != nil {
		for _, r := range fp.refs {
			ex = append(ex, mkEq("r!f", r))
		}
	}
	return fmt.Sprintf("(forall ((r!f Int)) (=> (and (< 0 r!f) (< r!f %s) %s) (= (select %s r!f) (select %s r!f))))",
		bound, mkNot(mkOr(ex...)), final, init)
}

// widen: the footprint as seen over many invocations of a callback: element windows
// become whole regions (a window may move inside its region between invocations).
func (fp *footprint) widen() *footprint {
	if fp == nil {
		return nil
	}
	n := &footprint{whole: fp.whole, refs: fp.refs, regions: append([]string{}, fp.regions...)}
	for _, e := range fp.elems {
		n.regions = append(n.regions, e[0])
	}
	return n
}

package main

import (
	"bytes"
	"context"
	"os"
	"os/exec"
	"strings"
	"sync"
	"time"
)

type solverSpec struct {
	name string
	args func(file string, timeoutS int) []string
}

var solvers = []solverSpec{
	{"z3-new", func(f string, t int) []string { return []string{"z3-new", "-T:" + itoa(t), f} }},
	{"z3", func(f string, t int) []string { return []string{"z3", "-T:" + itoa(t), f} }},
	// alternative strategies of the newer z3: quantified heap goals are often
	// decided at once by one of these where the default configuration loops
	{"z3-new/noauto", func(f string, t int) []string {
		return []string{"z3-new", "-T:" + itoa(t), "smt.auto_config=false", f}
	}},
	{"z3-new/arith2", func(f string, t int) []string {
		return []string{"z3-new", "-T:" + itoa(t), "smt.arith.solver=2", f}
	}},
	{"cvc5", func(f string, t int) []string {
		return []string{"cvc5", "--tlimit=" + itoa(t*1000), "--produce-models", f}
	}},
}

func itoa(n int) string {
	if n == 0 {
		return "0"
	}
	s := ""
	neg := n < 0
	if neg {
		n = -n
	}
	for n > 0 {
		s = string(rune('0'+n%10)) + s
		n /= 10
	}
	if neg {
		s = "-" + s
	}
	return s
}

type solveResult struct {
	status  string // unsat | sat | unknown
	solver  string
	seconds float64
	model   string
	output  string
}

// cvc5 rejects (set-option :produce-models) after set-logic ordering and some z3-isms;
// the files we emit are plain SMT-LIB 2.6.
func runSolver(ctx context.Context, sp solverSpec, file string, timeoutS int) solveResult {
	args := sp.args(file, timeoutS)
	cctx, cancel := context.WithTimeout(ctx, time.Duration(timeoutS+2)*time.Second)
	defer cancel()
	cmd := exec.CommandContext(cctx, args[0], args[1:]...)
	var out bytes.Buffer
	cmd.Stdout = &out
	cmd.Stderr = &out
	start := time.Now()
	_ = cmd.Run()
	el := time.Since(start).Seconds()
	text := out.String()
	// solver warnings (e.g. about a rejected trigger) precede the answer: skip them
	for strings.HasPrefix(strings.TrimSpace(text), "WARNING") {
		t := strings.TrimSpace(text)
		i := strings.IndexByte(t, '\n')
		if i < 0 {
			text = ""
			break
		}
		text = t[i+1:]
	}
	first := strings.TrimSpace(text)
	if i := strings.IndexByte(first, '\n'); i >= 0 {
		first = strings.TrimSpace(first[:i])
	}
	r := solveResult{solver: sp.name, seconds: el, output: text}
	switch first {
	case "unsat":
		r.status = "unsat"
	case "sat":
		r.status = "sat"
		if i := strings.IndexByte(text, '\n'); i >= 0 {
			r.model = text[i+1:]
		}
	default:
		r.status = "unknown"
		// a candidate model may still be available (cvc5 after "unknown")
		if first == "unknown" {
			if i := strings.IndexByte(text, '\n'); i >= 0 && strings.HasPrefix(strings.TrimSpace(text[i+1:]), "((") {
				r.model = text[i+1:]
			}
		}
	}
	return r
}

// portfolio races the solvers; the first definitive answer wins.
func portfolio(parent context.Context, file string, timeoutS int, which []solverSpec) solveResult {
	ctx, cancel := context.WithCancel(parent)
	defer cancel()
	ch := make(chan solveResult, len(which))
	for _, sp := range which {
		sp := sp
		go func() { ch <- runSolver(ctx, sp, file, timeoutS) }()
	}
	var last solveResult
	var outs []string
	cand := ""
	for range which {
		r := <-ch
		if r.status == "unsat" || r.status == "sat" {
			return r
		}
		outs = append(outs, r.solver+": "+firstLine(r.output))
		if r.model != "" {
			cand = r.model
		}
		if r.seconds > last.seconds {
			last = r
		}
	}
	last.status = "unknown"
	last.solver = "all"
	last.output = strings.Join(outs, " | ")
	last.model = cand // candidate model of an inconclusive answer (replay decides)
	return last
}

func firstLine(s string) string {
	s = strings.TrimSpace(s)
	if i := strings.IndexByte(s, '\n'); i >= 0 {
		return s[:i]
	}
	return s
}

func availableSolvers() []solverSpec {
	var out []solverSpec
	for _, s := range solvers {
		bin := s.name
		if i := strings.IndexByte(bin, '/'); i >= 0 {
			bin = bin[:i]
		}
		if _, err := exec.LookPath(bin); err == nil {
			out = append(out, s)
		}
	}
	return out
}

type job struct {
	idx  int
	file string
}

// variantDelay: how long the first formulation of a VC runs alone before the
// second (equivalent) definition of the machine-arithmetic macros joins the race.
const variantDelay = 3 * time.Second

func definitive(r solveResult) bool { return r.status == "unsat" || r.status == "sat" }

// solveOne races the solver portfolio on the VC and, once the first formulation
// has been inconclusive or silent for variantDelay, on its variant-B twin; the
// first definitive answer wins and the losers are killed.
func solveOne(file string, timeoutS int, which []solverSpec) solveResult {
	ctx, cancel := context.WithCancel(context.Background())
	defer cancel()
	// stage 0: most obligations are decided by the first solver within a fraction of a
	// second; racing the whole portfolio on each of them only loads the machine
	if len(which) > 1 && os.Getenv("GOVC_NOSTAGE") == "" {
		t0 := 2
		if timeoutS < t0 {
			t0 = timeoutS
		}
		if r := runSolver(ctx, which[0], file, t0); definitive(r) {
			return r
		}
	}
	type tagged struct {
		r solveResult
		b bool
	}
	ch := make(chan tagged, 2)
	start := time.Now()
	go func() { ch <- tagged{portfolio(ctx, file, timeoutS, which), false} }()
	pending := 1
	startedB := false
	startB := func() {
		if startedB {
			return
		}
		startedB = true
		if fb := variantB(file); fb != "" {
			pending++
			go func() { ch <- tagged{portfolio(ctx, fb, timeoutS, which), true} }()
		}
	}
	timer := time.NewTimer(variantDelay)
	defer timer.Stop()
	// variant C (no entry-heap typing facts) joins after a short head start of the
	// full formulation; only an "unsat" of it counts (its models may be ill-typed)
	timerC := time.NewTimer(1500 * time.Millisecond)
	defer timerC.Stop()
	chC := make(chan solveResult, 1)
	startedC := false
	var first solveResult
	gotFirst := false
	for pending > 0 {
		select {
		case t := <-ch:
			pending--
			if definitive(t.r) {
				if t.b {
					t.r.solver += "/modform"
					t.r.seconds = time.Since(start).Seconds()
				}
				return t.r
			}
			if !t.b {
				first = t.r
				gotFirst = true
				startB()
			}
		case r := <-chC:
			pending--
			if r.status == "unsat" {
				r.solver += "/nowf"
				r.seconds = time.Since(start).Seconds()
				return r
			}
		case <-timer.C:
			startB()
		case <-timerC.C:
			if !startedC {
				startedC = true
				if fc := variantC(file); fc != "" {
					pending++
					go func() { chC <- portfolio(ctx, fc, timeoutS, which) }()
				}
			}
		}
	}
	_ = gotFirst
	return first
}

// solveAll: proof obligations get timeoutS per formulation, cover (vacuity)
// queries coverTimeoutS - an inconclusive cover is not an alarm, so it need
// not wait as long.
func solveAll(files []string, obls []*Obligation, timeoutS, coverTimeoutS int, workers int) []solveResult {
	res := make([]solveResult, len(files))
	which := availableSolvers()
	// dedupe identical VC bodies
	type key string
	cache := map[key]int{}
	var mu sync.Mutex
	jobs := make(chan job)
	var wg sync.WaitGroup
	for w := 0; w < workers; w++ {
		wg.Add(1)
		go func() {
			defer wg.Done()
			for j := range jobs {
				t := timeoutS
				if j.idx < len(obls) && obls[j.idx].Cover {
					t = coverTimeoutS
				}
				r := solveOne(j.file, t, which)
				mu.Lock()
				res[j.idx] = r
				mu.Unlock()
			}
		}()
	}
	dups := map[int]int{}
	for i, f := range files {
		if f == "" {
			res[i] = solveResult{status: "trivial"}
			continue
		}
		b, _ := os.ReadFile(f)
		// skip the first comment line (the name)
		body := string(b)
		if j := strings.IndexByte(body, '\n'); j >= 0 {
			body = body[j+1:]
		}
		if k, ok := cache[key(body)]; ok {
			dups[i] = k
			continue
		}
		cache[key(body)] = i
		jobs <- job{i, f}
	}
	close(jobs)
	wg.Wait()
	// second chance for inconclusive proof obligations: solver processes were
	// seen to stall for seconds on a busy machine (a 0.1 s query took 8 s), so
	// an "unknown" is re-asked once with little else running before it is
	// reported as undischarged. Definitive answers are never re-asked.
	var again []int
	for _, i := range cache {
		if !definitive(res[i]) && !(i < len(obls) && obls[i].Cover) {
			again = append(again, i)
		}
	}
	if len(again) > 0 {
		rj := make(chan int)
		var rwg sync.WaitGroup
		for w := 0; w < 2 && w < len(again); w++ {
			rwg.Add(1)
			go func() {
				defer rwg.Done()
				for i := range rj {
					r := solveOne(files[i], timeoutS, which)
					if definitive(r) {
						r.solver += "/retry"
						mu.Lock()
						r.seconds += res[i].seconds
						res[i] = r
						mu.Unlock()
					}
				}
			}()
		}
		for _, i := range again {
			rj <- i
		}
		close(rj)
		rwg.Wait()
	}
	for i, k := range dups {
		res[i] = res[k]
	}
	return res
}

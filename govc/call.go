package main

import (
	"fmt"
	"os"
	"sort"
	"go/token"
	"go/types"
	"strings"

	"golang.org/x/tools/go/ssa"
)

func (x *Exec) evalCallee(st *State, fr *Frame, call *ssa.CallCommon) (Value, []Value) {
	var args []Value
	for _, a := range call.Args {
		args = append(args, x.operand(st, fr, a))
	}
	if call.IsInvoke() {
		recv := x.operand(st, fr, call.Value)
		return Value{K: KFunc, T: call.Method.Type(), S: "invoke", Recv: &recv}, args
	}
	return x.operand(st, fr, call.Value), args
}

func (x *Exec) doCall(st *State, fr *Frame, call *ssa.CallCommon, pos token.Pos, instr ssa.Instruction) []Outcome {
	fnv, args := x.evalCallee(st, fr, call)
	return x.callValue(st, fr, fnv, args, call, pos, instr)
}

func single(st *State, vs ...Value) []Outcome { return []Outcome{{st: st, results: vs}} }

func (x *Exec) callValue(st *State, fr *Frame, fnv Value, args []Value, call *ssa.CallCommon, pos token.Pos, instr ssa.Instruction) []Outcome {
	x.stats.calls++
	if strings.HasPrefix(fnv.S, "builtin:") {
		return x.builtin(st, fr, fnv.S[8:], args, call, pos)
	}
	if fnv.S == "invoke" && fnv.Recv != nil {
		recv := *fnv.Recv
		m := call.Method
		x.safetyCheck(st, "nil", mkNot(mkEq(recv.S, "0")), pos)
		if recv.Dyn != nil {
			if fn := x.prog.ssa.LookupMethod(recv.Dyn.T, m.Pkg(), m.Name()); fn != nil {
				return x.callStatic(st, fr, fn, append([]Value{*recv.Dyn}, args...), nil, pos)
			}
		}
		key := ifaceMethodKey(call.Value.Type(), m)
		sig := m.Type().(*types.Signature)
		x.callAsserts(st, fr, key, append([]Value{recv}, args...), paramNames(sig, nil), pos)
		if c := x.contractOf(key); c != nil {
			return x.applyContract(st, fr, c, key, sig, nil, append([]Value{recv}, args...), pos)
		}
		if im, ok := ifaceModels[key]; ok {
			if outs := im(x, st, fr, sig, append([]Value{recv}, args...), pos); outs != nil {
				x.assumed[key+" (built-in model)"] = true
				return outs
			}
		}
		return x.havocCall(st, fr, key, sig, append([]Value{recv}, args...), pos)
	}
	if fnv.Fn != nil {
		return x.callStatic(st, fr, fnv.Fn, args, fnv.Binds, pos)
	}
	// symbolic function value
	sig, _ := fnv.T.Underlying().(*types.Signature)
	if sig == nil {
		unsupported("call of non-function value")
	}
	// call through a package-level function variable (test hooks such as
	// timeNow): a contract keyed by the variable's name applies
	if call != nil {
		if u, ok := call.Value.(*ssa.UnOp); ok {
			if g, ok := u.X.(*ssa.Global); ok && g.Pkg != nil {
				key := g.Pkg.Pkg.Path() + "." + g.Name()
				if c := x.contractOf(key); c != nil {
					return x.applyContract(st, fr, c, key, sig, nil, args, pos)
				}
			}
		}
	}
	// call through a struct field of function type (e.g. a hash constructor kept in a
	// struct): a contract keyed "<pkg>.<Type>.<field>" applies
	if call != nil {
		if u, ok := call.Value.(*ssa.UnOp); ok {
			if fa, ok := u.X.(*ssa.FieldAddr); ok {
				if pt, ok := fa.X.Type().Underlying().(*types.Pointer); ok {
					if n, ok := pt.Elem().(*types.Named); ok {
						if stt, ok := n.Underlying().(*types.Struct); ok && fa.Field < stt.NumFields() {
							key := qualName(n) + "." + stt.Field(fa.Field).Name()
							if c := x.contractOf(key); c != nil {
								x.safetyCheck(st, "nil", mkNot(mkEq(fnv.S, "0")), pos)
								return x.applyContract(st, fr, c, key, sig, nil, args, pos)
							}
						}
					}
				}
			}
		}
	}
	x.safetyCheck(st, "nil", mkNot(mkEq(fnv.S, "0")), pos)
	// a call of a function-typed parameter of the unit: call-site obligations may be attached
	// to it as "callassert param.<name> ..."
	if call != nil && fr.depth == 0 {
		pname := ""
		if pr, ok := call.Value.(*ssa.Parameter); ok {
			pname = pr.Name()
		} else if u, ok := call.Value.(*ssa.UnOp); ok {
			// naive form: the parameter was spilled into a local of the same name
			if a, ok := u.X.(*ssa.Alloc); ok {
				for _, pr := range fr.fn.Params {
					if pr.Name() == a.Comment {
						pname = pr.Name()
					}
				}
			}
		}
		if pname != "" {
			x.callAsserts(st, fr, "param."+pname, args, paramNames(sig, nil), pos)
		}
	}
	// a value of a named function type: a contract keyed by the type applies
	if n, ok := fnv.T.(*types.Named); ok {
		key := qualName(n)
		x.callAsserts(st, fr, key, args, paramNames(sig, nil)[1:], pos)
		if c := x.contractOf(key); c != nil {
			return x.applyContract(st, fr, c, key, sig, nil, args, pos)
		}
	}
	return x.havocCall(st, fr, "func-value", sig, args, pos)
}

func ifaceMethodKey(t types.Type, m *types.Func) string {
	if n, ok := t.(*types.Named); ok {
		return "(" + qualName(n) + ")." + m.Name()
	}
	// embedded/anonymous interface: use the method's declaring interface if known
	if recv := m.Type().(*types.Signature).Recv(); recv != nil {
		if n, ok := recv.Type().(*types.Named); ok {
			return "(" + qualName(n) + ")." + m.Name()
		}
	}
	return "(interface)." + m.Name()
}

func funcKey(fn *ssa.Function) string {
	s := fn.String()
	if o := fn.Origin(); o != nil {
		s = o.String()
	}
	return s
}

func shortName(key string) string {
	// "(*pkg/path.T).M" -> "T.M"; "pkg/path.F" -> "F"; closures keep $n
	s := key
	if i := strings.LastIndex(s, "/"); i >= 0 {
		s = s[i+1:]
	}
	if i := strings.Index(s, "."); i >= 0 {
		s = s[i+1:]
	}
	s = strings.ReplaceAll(s, ")", "")
	return s
}

func (x *Exec) callStatic(st *State, fr *Frame, fn *ssa.Function, args []Value, binds []Value, pos token.Pos) []Outcome {
	key := funcKey(fn)
	c := x.contractOf(key)
	if fr.contract != nil && len(fn.Blocks) > 0 {
		for _, ic := range fr.contract.InlineCalls {
			if ic == shortName(key) || ic == key || strings.HasSuffix(shortName(key), "."+ic) {
				c = &FuncContract{Key: key, Inline: true}
			}
		}
	}
	x.callAsserts(st, fr, key, args, paramNames(fn.Signature, fn), pos)
	if c != nil && !c.Inline {
		x.pendingBinds = binds // captured variables of a closure under contract
		return x.applyContract(st, fr, c, key, fn.Signature, fn, args, pos)
	}
	if m, ok := models[key]; ok {
		if outs := m(x, st, fr, fn, args, pos); outs != nil {
			return outs
		}
	}
	inline := (c != nil && c.Inline) || fn.Parent() != nil || (fn.Synthetic != "" && len(fn.Blocks) > 0)
	if !inline && c == nil && x.autoInline(fr, fn) {
		inline = true
	}
	if inline && len(fn.Blocks) > 0 {
		if fn == x.unitFn && c == nil {
			unsupported("recursive call of %s without contract", key)
		}
		x.inlined[key] = true
		pfx := shortName(key)
		if fn.Parent() != nil {
			pfx = fn.Name()
		}
		// the unit's contract supplies the loop specs for inlined bodies
		contract := fr.contract
		outs := x.runFunc(st, fn, args, binds, fr, contract, pfx+".", pos)
		return outs
	}
	return x.havocCall(st, fr, key, fn.Signature, args, pos)
}

// pure (effect-free) callee prefixes: results are havocked, nothing else changes.
var purePrefixes = []string{
	"fmt.", "strings.", "strconv.", "errors.", "log.", "(*log.", "encoding/hex.", "encoding/base64.",
	"time.", "(time.", "(*time.", "context.", "unicode", "math.", "math/bits.", "path.", "path/filepath.",
	"(github.com/gauss-project/aurorafs/pkg/logging.", "(*github.com/sirupsen/logrus.", "github.com/sirupsen/logrus.",
	"(github.com/prometheus/", "(*github.com/prometheus/", "github.com/prometheus/",
	"github.com/opentracing/", "(github.com/opentracing/", "(*github.com/gauss-project/aurorafs/pkg/tracing.",
	"bytes.Equal", "bytes.Compare", "bytes.HasPrefix", "bytes.Contains", "bytes.Index",
	"(github.com/gauss-project/aurorafs/pkg/boson.Address).", "github.com/gauss-project/aurorafs/pkg/boson.NewAddress",
	"(*math/big.Int).String", "(*math/big.Int).Text", "(*math/big.Int).Int64", "(*math/big.Int).Uint64", "(*math/big.Int).IsInt64",
	"(github.com/ethereum/go-ethereum/common.Address).", "(github.com/ethereum/go-ethereum/common.Hash).",
	"github.com/ethereum/go-ethereum/common.",
	"reflect.", "(reflect.", "sort.Search", "net.", "(net.", "os.Getenv", "unicode/utf8.",
	"(interface).Error", "(error).Error",
}

func isPureKey(key string) bool {
	for _, p := range purePrefixes {
		if strings.HasPrefix(key, p) {
			return true
		}
	}
	// logging / metrics interfaces by method owner name
	if strings.Contains(key, "logging.Logger).") || strings.Contains(key, "prometheus.") {
		return true
	}
	return false
}

func (x *Exec) havocCall(st *State, fr *Frame, key string, sig *types.Signature, args []Value, pos token.Pos) []Outcome {
	pure := isPureKey(key)
	if !pure {
		x.unmod[key] = true
		for _, a := range args {
			x.havocReachable(st, a)
		}
	} else {
		x.pureCalls[key] = true
	}
	x.bumpAlloc(st)
	if pure && deterministicKey(key) {
		if res, ok := x.pureUF(st, key, sig, args); ok {
			return single(st, res...)
		}
	}
	var res []Value
	for i := 0; i < sig.Results().Len(); i++ {
		v := x.symbolic(st, sig.Results().At(i).Type(), "r."+shortName(key))
		// context.WithCancel / WithTimeout / WithDeadline / WithValue / Background / TODO never answer nil
		if strings.HasPrefix(key, "context.With") || key == "context.Background" || key == "context.TODO" {
			if v.S != "" && (v.K == KIface || v.K == KFunc || v.K == KRef) {
				st.assume(mkNot(mkEq(v.S, "0")))
			}
		}
		res = append(res, v)
	}
	return single(st, res...)
}

var nondeterministic = []string{"time.Now", "time.Since", "time.Until", "time.After", "time.Tick", "time.NewTimer", "time.NewTicker",
	"os.", "math/rand.", "crypto/rand.", "context.With", "context.Background", "context.TODO", "reflect.", "(reflect.", "net."}

func deterministicKey(key string) bool {
	for _, p := range nondeterministic {
		if strings.HasPrefix(key, p) {
			return false
		}
	}
	if strings.Contains(key, "logging.") || strings.Contains(key, "prometheus") || strings.Contains(key, "logrus") || strings.Contains(key, "tracing") {
		return false
	}
	return true
}

func scalarKind(k Kind) bool {
	switch k {
	case KBool, KInt, KBV8, KStr, KOpaque, KReal, KArray:
		return true
	}
	return false
}

// pureUF models a deterministic, effect-free callee with scalar arguments and
// results as an uninterpreted function of its arguments.
func (x *Exec) pureUF(st *State, key string, sig *types.Signature, args []Value) ([]Value, bool) {
	if len(args) == 0 || sig.Results().Len() == 0 {
		return nil, false
	}
	var sorts, terms []string
	for _, a := range args {
		if !scalarKind(a.K) || a.S == "" {
			return nil, false
		}
		sorts = append(sorts, x.tc.sortOf(a.T))
		terms = append(terms, a.S)
	}
	var res []Value
	for i := 0; i < sig.Results().Len(); i++ {
		rt := sig.Results().At(i).Type()
		rk := x.tc.kindOf(rt)
		if !scalarKind(rk) && rk != KIface {
			return nil, false
		}
		name := fmt.Sprintf("pure.%s.%d", sanitize(key), i)
		x.d.fun(name, sorts, x.tc.sortOf(rt))
		v := Value{K: rk, T: rt, S: "(" + name + " " + strings.Join(terms, " ") + ")"}
		x.assumeWF(st, v)
		res = append(res, v)
	}
	return res, true
}

// freshLike: a fresh unconstrained value of the same shape (ghost variables).
func (x *Exec) freshLike(st *State, v Value, name string) Value {
	switch v.K {
	case KStruct, KTuple:
		out := Value{K: v.K, T: v.T}
		for i, f := range v.Fields {
			out.Fields = append(out.Fields, x.freshLike(st, f, fmt.Sprintf("%s.%d", name, i)))
		}
		return out
	case KSlice:
		return x.symbolic(st, v.T, name)
	case KBool:
		return Value{K: KBool, T: v.T, S: x.d.fresh(name, sBool)}
	case KBV8:
		return Value{K: KBV8, T: v.T, S: x.d.fresh(name, sBV8)}
	case KInt:
		return Value{K: KInt, T: v.T, S: x.d.fresh(name, sInt)}
	}
	sort := sInt
	if v.T != nil {
		sort = x.tc.sortOf(v.T)
	} else if v.Sort != "" {
		sort = v.Sort
	}
	return Value{K: v.K, T: v.T, Sort: v.Sort, S: x.d.fresh(name, sort)}
}

// bumpAlloc: a callee may allocate; the allocation counter moves to an
// unknown later value (its results may be fresh objects).
func (x *Exec) bumpAlloc(st *State) {
	na := x.d.fresh("alloc", sInt)
	st.assume(mkCmp("<=", st.alloc, na))
	st.alloc = na
}

// havocReachable: an unknown callee may write the object a pointer argument
// points to and the elements of a slice argument (one level).
func (x *Exec) havocReachable(st *State, a Value) {
	switch a.K {
	case KRef:
		et := pointee(a.T)
		if et == nil {
			return
		}
		if x.isStructLike(et) {
			stt := et.Underlying().(*types.Struct)
			for i := 0; i < stt.NumFields(); i++ {
				name, sort := x.fieldHeapName(et, i)
				h := x.heapTerm(st, name, sort)
				fv := x.d.fresh("hv."+stt.Field(i).Name(), x.tc.sortOf(stt.Field(i).Type()))
				x.setHeap(st, name, mkIte(mkEq(a.S, "0"), h, mkStore(h, a.S, fv)))
			}
			return
		}
		name, sort := x.opaqueHeap(et)
		h := x.heapTerm(st, name, sort)
		x.setHeap(st, name, mkStore(h, a.S, x.d.fresh("hv.o", x.tc.sortOf(et))))
	case KPtr:
		if a.B == BCell {
			if cv, ok := st.cells[a.Cell]; ok {
				nv := x.symbolic(st, x.typeAtPath(cv.T, a.Path), "hv.cell")
				st.cells[a.Cell] = x.setPath(st, cv, a.Path, nv)
			}
			return
		}
		et := pointee(a.T)
		if et != nil {
			x.store(st, a, x.symbolic(st, et, "hv.p"), token.NoPos)
		}
	case KSlice:
		et := a.T.Underlying().(*types.Slice).Elem()
		x.havocElems(st, a, et)
	case KIface:
		if a.Dyn != nil {
			x.havocReachable(st, *a.Dyn)
		}
	case KStruct:
		// struct passed by value: callee gets a copy; pointers inside are reachable
		for _, f := range a.Fields {
			if f.K == KSlice {
				continue
			}
		}
	}
}

func (x *Exec) typeAtPath(t types.Type, path []PathElem) types.Type {
	for _, p := range path {
		switch u := t.Underlying().(type) {
		case *types.Struct:
			t = u.Field(p.Field).Type()
		case *types.Array:
			t = u.Elem()
		}
	}
	return t
}

// havocElems replaces the elements s[0:len] by arbitrary values.
func (x *Exec) havocElems(st *State, s Value, et types.Type) {
	name, sort := x.elemHeapName(et)
	h := x.heapTerm(st, name, sort)
	es := x.tc.sortOf(et)
	na := x.d.fresh("hv.arr", "(Array Int "+es+")")
	old := mkSelect(h, s.Rid)
	q := fmt.Sprintf("(forall ((i!h Int)) (=> (or (< i!h %s) (>= i!h %s)) (= (select %s i!h) (select %s i!h))))", s.Off, mkAdd(s.Off, s.Len), na, old)
	st.assume(q)
	// (a nil slice has length 0: na then equals the old contents of region 0)
	x.setHeap(st, name, mkStore(h, s.Rid, na))
}

// ---------------------------------------------------------------------------
// contracts at call sites

func (x *Exec) applyContract(st *State, fr *Frame, c *FuncContract, key string, sig *types.Signature, fn *ssa.Function, args []Value, pos token.Pos) []Outcome {
	if c.Trusted {
		x.assumed[key] = true
	} else {
		x.usedContracts[key] = true
	}
	names := paramNames(sig, fn)
	if fn == nil && len(args) == sig.Params().Len() {
		names = names[1:] // no receiver (function variable)
	}
	env := &SpecEnv{x: x, st: st, old: st, names: map[string]Value{}, pkg: x.pkgOfKey(key, fn), fr: nil}
	argN := 0
	for i, n := range names {
		if i < len(args) && n != "" && n != "_" {
			env.names[n] = args[i]
		}
		// positional names arg0, arg1, ... for the (possibly unnamed) parameters after the receiver
		if i < len(args) && n != "self" {
			env.names[fmt.Sprintf("arg%d", argN)] = args[i]
			argN++
		}
	}
	short := shortName(key)
	if fn != nil && fn.Parent() != nil && fr != nil && fr.fn == fn.Parent() {
		env.witFr = fr // (see env2 below)
	}
	if fn != nil && len(x.pendingBinds) > 0 {
		for i, fv := range fn.FreeVars {
			if i < len(x.pendingBinds) {
				env.names[fv.Name()] = x.load(st, x.pendingBinds[i], pos)
			}
		}
	}
	x.assignBinds, x.assignFn = x.pendingBinds, fn
	x.pendingBinds = nil
	for _, l := range c.Lets {
		env.names[l.Name] = env.eval(l.E) // entry-state snapshots of the callee's contract
	}
	for _, r := range c.Requires {
		t := env.evalBool(r.E)
		x.oblige(st, "pre", short+":"+r.Label, t, pos)
		st.assume(t)
	}
	// callbacks the callee invokes any number of times: the closure's iteration
	// invariant holds now, everything the closure may write is havocked, and the
	// invariant holds again afterwards (it is proved inductive on the closure unit)
	for _, it := range c.Iterates {
		cv, ok := env.names[it.Param]
		if !ok || cv.K != KFunc || cv.Fn == nil {
			unsupported("iterates %s: argument of %s is not a known closure", it.Param, key)
		}
		x.iterateClosure(st, fr, cv, short, pos, it, env)
	}
	oldSt := st.clone()
	// frame
	x.applyAssigns(st, env, c, args)
	x.bumpAlloc(st)
	var res []Value
	for i := 0; i < sig.Results().Len(); i++ {
		res = append(res, x.symbolic(st, sig.Results().At(i).Type(), "r."+short))
	}
	for rn, tn := range c.DynTypes {
		idx := -1
		for i := 0; i < sig.Results().Len(); i++ {
			if sig.Results().At(i).Name() == rn || fmt.Sprintf("result%d", i) == rn || (rn == "result" && i == 0) {
				idx = i
			}
		}
		if idx < 0 || res[idx].K != KIface {
			unsupported("dyntype %s: no such interface result in %s", rn, key)
		}
		// <type> ::= [ "[]" ] [ "*" ] <named type>
		base := tn
		isSlice := strings.HasPrefix(base, "[]")
		base = strings.TrimPrefix(base, "[]")
		ptr := strings.HasPrefix(base, "*")
		t := env.lookupType(strings.TrimPrefix(base, "*"))
		if t == nil {
			unsupported("dyntype %s: unknown type %s", rn, tn)
		}
		if ptr {
			t = types.NewPointer(t)
		}
		if isSlice {
			t = types.NewSlice(t)
		}
		dv := x.symbolic(st, t, "dyn."+rn)
		res[idx].Dyn = &dv
	}
	env2 := &SpecEnv{x: x, st: st, old: oldSt, names: env.names, pkg: env.pkg, results: res, sig: sig}
	if fn != nil && fn.Parent() != nil && fr != nil && fr.fn == fn.Parent() {
		// the contract of a function literal may mention locals of the function it is
		// written in (their values at the call)
		env2.witFr = fr
	}
	for _, e := range c.Ensures {
		if strings.HasPrefix(e.Label, "bounded-") || strings.HasPrefix(e.Label, "assumed-") {
			x.assumed[key+" clause "+e.Label+" (used at a call site; not proved in general)"] = true
		}
		st.assume(env2.evalBool(e.E))
	}
	return single(st, res...)
}

func (x *Exec) pkgOfKey(key string, fn *ssa.Function) *types.Package {
	if fn != nil && fn.Pkg != nil {
		return fn.Pkg.Pkg
	}
	// interface method or external: find by longest package path prefix
	k := strings.TrimLeft(key, "(*")
	best := ""
	for path := range x.prog.byPath {
		if strings.HasPrefix(k, path+".") && len(path) > len(best) {
			best = path
		}
	}
	if best != "" {
		return x.prog.byPath[best].Types
	}
	return nil
}

func paramNames(sig *types.Signature, fn *ssa.Function) []string {
	var names []string
	if fn != nil {
		for _, p := range fn.Params {
			names = append(names, p.Name())
		}
		return names
	}
	names = append(names, "self")
	for i := 0; i < sig.Params().Len(); i++ {
		names = append(names, sig.Params().At(i).Name())
	}
	return names
}

func (x *Exec) applyAssigns(st *State, env *SpecEnv, c *FuncContract, args []Value) {
	for _, a := range c.Assigns {
		x.applyAssign(st, env, a)
	}
}

func (x *Exec) applyAssign(st *State, env *SpecEnv, a AssignSpec) {
	// a frame target that names a local of the enclosing function which does not exist
	// on this path denotes nothing
	defer func() {
		if r := recover(); r != nil {
			if se, ok := r.(*SpecError); ok && strings.Contains(se.Msg, "local-at-exit") {
				return
			}
			panic(r)
		}
	}()
	{
		switch a.Kind {
		case "nothing":
		case "target":
			// the object an interface{} / pointer argument points to
			v := env.eval(a.E)
			if v.K == KIface && v.Dyn != nil {
				v = *v.Dyn
			}
			x.havocReachable(st, v)
			x.assumeDecoded(st, v)
		case "ghost":
			old, ok := st.ghost[a.Heap]
			if !ok {
				unsupported("assigns ghost %s: undeclared ghost variable", a.Heap)
			}
			st.ghost[a.Heap] = x.freshLike(st, old, "gh."+a.Heap)
		case "var":
			done := false
			if x.assignFn != nil {
				for i, fv := range x.assignFn.FreeVars {
					if fv.Name() == a.Heap && i < len(x.assignBinds) {
						b := x.assignBinds[i]
						if b.K == KPtr && b.B == BCell {
							if cv, ok := st.cells[b.Cell]; ok {
								st.cells[b.Cell] = x.symbolicLike(st, cv, "hv."+a.Heap)
								done = true
							}
						} else {
							x.havocReachable(st, b)
							done = true
						}
					}
				}
			}
			if !done {
				unsupported("assigns var %s: not a captured variable of the callee", a.Heap)
			}
		case "all":
			for _, name := range heapNames(st.heaps) {
				x.setHeap(st, name, x.d.fresh("hv."+name, x.heapSorts[name]))
			}
		case "heap":
			name := x.resolveHeapName(env, a.Heap)
			sort, ok := x.heapSorts[name]
			if !ok {
				// heap not yet touched: touching it now declares it
				sort = x.heapSortByName(env, a.Heap)
			}
			x.heapTerm(st, name, sort)
			x.setHeap(st, name, x.d.fresh("hv."+name, sort))
		case "field":
			obj := env.eval(a.E)
			ref, objT := x.objectOf(obj)
			idx := fieldIndex(objT, a.Field)
			if idx < 0 {
				unsupported("assigns: no field %s in %v", a.Field, objT)
			}
			name, sort := x.fieldHeapName(objT, idx)
			h := x.heapTerm(st, name, sort)
			ft := objT.Underlying().(*types.Struct).Field(idx).Type()
			x.setHeap(st, name, mkStore(h, ref, x.d.fresh("hv."+a.Field, x.tc.sortOf(ft))))
		case "elems":
			s := env.eval(a.E)
			if s.K != KSlice {
				unsupported("assigns elems(): not a slice")
			}
			x.havocElems(st, s, s.T.Underlying().(*types.Slice).Elem())
		}
	}
}

func (x *Exec) objectOf(v Value) (ref string, objT types.Type) {
	switch v.K {
	case KRef:
		return v.S, pointee(v.T)
	case KPtr:
		if v.B == BObj && len(v.Path) == 0 {
			return v.Ref, v.ObjT
		}
	}
	unsupported("expected pointer to heap object, got kind %d (%v)", v.K, v.T)
	return "", nil
}

func fieldIndex(t types.Type, name string) int {
	st, ok := t.Underlying().(*types.Struct)
	if !ok {
		return -1
	}
	for i := 0; i < st.NumFields(); i++ {
		if st.Field(i).Name() == name {
			return i
		}
	}
	return -1
}

// resolveHeapName maps "T.f" (type in the env package, or pkg.T.f) to the heap name.
func (x *Exec) resolveHeapName(env *SpecEnv, spec string) string {
	if strings.Contains(spec, "$") || !strings.Contains(spec, ".") {
		if _, ok := x.heapSorts[spec]; !ok && spec == "SSP" {
			x.heapSorts[spec] = "(Array Int (Array Str Bool))"
		}
		if _, ok := x.heapSorts[spec]; !ok && spec == "SSV$math.big.Int" {
			x.heapSorts[spec] = "(Array Int (Array Str Int))"
		}
		return spec
	}
	parts := strings.Split(spec, ".")
	if len(parts) < 2 {
		unsupported("assigns heap %q: expected Type.field", spec)
	}
	field := parts[len(parts)-1]
	tname := strings.Join(parts[:len(parts)-1], ".")
	t := env.lookupType(tname)
	if t == nil {
		unsupported("assigns heap %q: unknown type", spec)
	}
	idx := fieldIndex(t, field)
	if idx < 0 {
		unsupported("assigns heap %q: unknown field", spec)
	}
	name, sort := x.fieldHeapName(t, idx)
	x.heapSorts[name] = sort
	return name
}

func (x *Exec) heapSortByName(env *SpecEnv, spec string) string {
	name := x.resolveHeapName(env, spec)
	return x.heapSorts[name]
}

// ---------------------------------------------------------------------------
// builtins

func (x *Exec) builtin(st *State, fr *Frame, name string, args []Value, call *ssa.CallCommon, pos token.Pos) []Outcome {
	intT := types.Typ[types.Int]
	switch name {
	case "len":
		return single(st, Value{K: KInt, T: intT, S: x.lenOf(st, args[0])})
	case "cap":
		a := args[0]
		switch a.K {
		case KSlice:
			return single(st, Value{K: KInt, T: intT, S: a.Cap})
		case KArray:
			return single(st, Value{K: KInt, T: intT, S: intLit64(a.T.Underlying().(*types.Array).Len())})
		}
		return single(st, x.symbolic(st, intT, "cap"))
	case "append":
		if os.Getenv("GOVC_APPEND_ITE") == "" && args[1].Len != "0" && !x.boundedRun && x.bounded == 0 {
			// explore "fits in the capacity" and "reallocates" as two paths: each
			// VC then speaks about one concrete region instead of ite-terms
			fits := mkCmp("<=", mkAdd(args[0].Len, args[1].Len), args[0].Cap)
			a, b := st.clone(), st
			a.assume(fits)
			b.assume(mkNot(fits))
			var outs []Outcome
			if !x.prunable(a) {
				outs = append(outs, Outcome{st: a, results: []Value{x.doAppendCase(a, args[0], args[1], pos, 1)}})
			}
			if !x.prunable(b) {
				outs = append(outs, Outcome{st: b, results: []Value{x.doAppendCase(b, args[0], args[1], pos, 2)}})
			}
			return outs
		}
		return single(st, x.doAppend(st, args[0], args[1], pos))
	case "copy":
		return single(st, x.doCopy(st, args[0], args[1], pos))
	case "delete":
		x.mapDelete(st, args[0], args[1])
		return single(st)
	case "print", "println", "close":
		return single(st)
	case "recover":
		return single(st, Value{K: KIface, T: call.Signature().Results().At(0).Type(), S: "0"})
	case "min", "max":
		r := args[0]
		for _, a := range args[1:] {
			var c string
			if name == "min" {
				c = x.compare(st, token.LSS, a, r)
			} else {
				c = x.compare(st, token.GTR, a, r)
			}
			r = x.iteValue(st, c, a, r)
		}
		return single(st, r)
	case "ssa:wrapnilchk":
		x.safetyCheck(st, "nil", mkNot(mkEq(args[0].S, "0")), pos)
		return single(st, args[0])
	case "ssa:deferstack":
		return single(st, Value{K: KRef, T: call.Value.Type().(*types.Signature).Results().At(0).Type(), S: "0"})
	}
	unsupported("builtin %s", name)
	return nil
}

func (x *Exec) lenOf(st *State, a Value) string {
	switch a.K {
	case KSlice:
		return a.Len
	case KStr:
		if n, ok := x.strLens[a.S]; ok {
			return intLit64(int64(n))
		}
		x.assumeWF(st, a)
		return "(strlen " + a.S + ")"
	case KMap:
		return mkIte(mkEq(a.S, "0"), "0", x.mapLen(st, a.S))
	case KArray:
		return intLit64(a.T.Underlying().(*types.Array).Len())
	case KPtr, KRef:
		if at, ok := pointee(a.T).Underlying().(*types.Array); ok {
			return intLit64(at.Len())
		}
	case KChan:
		v := x.symbolic(st, types.Typ[types.Int], "chanlen")
		st.assume(mkCmp("<=", "0", v.S))
		return v.S
	}
	unsupported("len of kind %d", a.K)
	return ""
}

// doAppendCase: append with the capacity case decided by the path (mode 1: fits, in
// place; mode 2: reallocation into a fresh region).
func (x *Exec) doAppendCase(st *State, s, t Value, pos token.Pos, mode int) Value {
	if t.K == KStr {
		t = x.convert(st, t, types.NewSlice(types.Typ[types.Byte]), pos)
	}
	et := s.T.Underlying().(*types.Slice).Elem()
	es := x.tc.sortOf(et)
	name, sort := x.elemHeapName(et)
	h := x.heapTerm(st, name, sort)
	n := t.Len
	newLen := mkAdd(s.Len, n)
	st.assume(mkCmp("<=", newLen, maxSliceLen))
	st.pivots = append(st.pivots, s.Len)
	oldArr := mkSelect(h, s.Rid)
	srcArr := mkSelect(h, t.Rid)
	small := int64(-1)
	if nv, ok := isIntLit(n); ok && nv.Int64() <= 8 {
		small = nv.Int64()
	}
	if mode == 1 {
		var inPlace string
		if small >= 0 {
			inPlace = oldArr
			for j := int64(0); j < small; j++ {
				e := mkSelect(srcArr, mkAdd(t.Off, intLit64(j)))
				inPlace = mkStore(inPlace, mkAdd(mkAdd(s.Off, s.Len), intLit64(j)), e)
			}
		} else {
			ip := x.d.fresh("append.ip", "(Array Int "+es+")")
			base := mkAdd(s.Off, s.Len)
			st.assume(fmt.Sprintf("(forall ((j!a Int)) (! (= (select %s j!a) (ite (and (<= %s j!a) (< j!a %s)) (select %s (+ %s (- j!a %s))) (select %s j!a))) :pattern ((select %s j!a))))",
				ip, base, mkAdd(base, n), srcArr, t.Off, base, oldArr, ip))
			inPlace = ip
		}
		x.setHeap(st, name, mkStore(h, s.Rid, inPlace))
		return Value{K: KSlice, T: s.T, Rid: s.Rid, Off: s.Off, Len: newLen, Cap: s.Cap}
	}
	fresh := x.allocRef(st)
	ncap := x.d.fresh("append.cap", sInt)
	st.assume(mkAnd(mkCmp("<=", newLen, ncap), mkCmp("<=", ncap, maxSliceLen)))
	grown := x.d.fresh("append.arr", "(Array Int "+es+")")
	st.assume(fmt.Sprintf("(forall ((j!a Int)) (! (=> (and (<= 0 j!a) (< j!a %s)) (= (select %s j!a) (select %s (+ %s j!a)))) :pattern ((select %s j!a))))", s.Len, grown, oldArr, s.Off, grown))
	var moved string
	if small >= 0 {
		moved = grown
		for j := int64(0); j < small; j++ {
			e := mkSelect(srcArr, mkAdd(t.Off, intLit64(j)))
			moved = mkStore(moved, mkAdd(s.Len, intLit64(j)), e)
		}
	} else {
		mv := x.d.fresh("append.mv", "(Array Int "+es+")")
		st.assume(fmt.Sprintf("(forall ((j!a Int)) (! (= (select %s j!a) (ite (and (<= %s j!a) (< j!a %s)) (select %s (+ %s (- j!a %s))) (select %s j!a))) :pattern ((select %s j!a))))",
			mv, s.Len, newLen, srcArr, t.Off, s.Len, grown, mv))
		moved = mv
	}
	x.setHeap(st, name, mkStore(h, fresh, moved))
	return Value{K: KSlice, T: s.T, Rid: fresh, Off: "0", Len: newLen, Cap: ncap}
}

func (x *Exec) doAppend(st *State, s, t Value, pos token.Pos) Value {
	if t.K == KStr {
		t = x.convert(st, t, types.NewSlice(types.Typ[types.Byte]), pos)
	}
	et := s.T.Underlying().(*types.Slice).Elem()
	es := x.tc.sortOf(et)
	name, sort := x.elemHeapName(et)
	h := x.heapTerm(st, name, sort)
	n := t.Len
	newLen := mkAdd(s.Len, n)
	if n == "0" {
		return s
	}
	fits := mkCmp("<=", newLen, s.Cap)
	fresh := x.allocRef(st)
	ncap := x.d.fresh("append.cap", sInt)
	st.assume(mkAnd(mkCmp("<=", newLen, ncap), mkCmp("<=", ncap, maxSliceLen)))
	st.assume(mkCmp("<=", newLen, maxSliceLen))
	oldArr := mkSelect(h, s.Rid)
	srcArr := mkSelect(h, t.Rid)
	// grown copy
	grown := x.d.fresh("append.arr", "(Array Int "+es+")")
	st.assume(fmt.Sprintf("(forall ((j!a Int)) (=> (and (<= 0 j!a) (< j!a %s)) (= (select %s j!a) (select %s (+ %s j!a)))))", s.Len, grown, oldArr, s.Off))
	var inPlace, moved string
	if nv, ok := isIntLit(n); ok && nv.Int64() <= 8 {
		inPlace, moved = oldArr, grown
		for j := int64(0); j < nv.Int64(); j++ {
			e := mkSelect(srcArr, mkAdd(t.Off, intLit64(j)))
			inPlace = mkStore(inPlace, mkAdd(mkAdd(s.Off, s.Len), intLit64(j)), e)
			moved = mkStore(moved, mkAdd(s.Len, intLit64(j)), e)
		}
	} else {
		ip := x.d.fresh("append.ip", "(Array Int "+es+")")
		base := mkAdd(s.Off, s.Len)
		st.assume(fmt.Sprintf("(forall ((j!a Int)) (= (select %s j!a) (ite (and (<= %s j!a) (< j!a %s)) (select %s (+ %s (- j!a %s))) (select %s j!a))))",
			ip, base, mkAdd(base, n), srcArr, t.Off, base, oldArr))
		mv := x.d.fresh("append.mv", "(Array Int "+es+")")
		st.assume(fmt.Sprintf("(forall ((j!a Int)) (= (select %s j!a) (ite (and (<= %s j!a) (< j!a %s)) (select %s (+ %s (- j!a %s))) (select %s j!a))))",
			mv, s.Len, newLen, srcArr, t.Off, s.Len, grown))
		inPlace, moved = ip, mv
	}
	rid := mkIte(fits, s.Rid, fresh)
	x.setHeap(st, name, mkStore(h, rid, mkIte(fits, inPlace, moved)))
	return Value{K: KSlice, T: s.T, Rid: rid, Off: mkIte(fits, s.Off, "0"), Len: newLen, Cap: mkIte(fits, s.Cap, ncap)}
}

func (x *Exec) doCopy(st *State, dst, src Value, pos token.Pos) Value {
	if src.K == KStr {
		src = x.convert(st, src, types.NewSlice(types.Typ[types.Byte]), pos)
	}
	et := dst.T.Underlying().(*types.Slice).Elem()
	es := x.tc.sortOf(et)
	name, sort := x.elemHeapName(et)
	h := x.heapTerm(st, name, sort)
	n := mkIte(mkCmp("<=", dst.Len, src.Len), dst.Len, src.Len)
	if _, ok := isIntLit(n); !ok {
		// a small literal destination (or source) length that the path condition forces to be
		// the number of copied elements: copy element by element instead of by a quantified
		// definition (e.g. copy(c[:8], span) with len(span) == 8 known from a callee's contract)
		for _, cand := range []string{dst.Len, src.Len} {
			if lv, isl := isIntLit(cand); isl && lv.Sign() > 0 && lv.Int64() <= 8 && x.pruner != nil {
				t := st.clone()
				t.assume(mkNot(mkEq(n, cand)))
				if !x.pruner.feasible(x, t.pcList()) {
					n = cand
					break
				}
			}
		}
	}
	if lit, ok := isIntLit(n); !ok {
		c := x.d.fresh("copy.n", sInt)
		st.assume(mkEq(c, n))
		n = c
	} else if lit.Sign() == 0 {
		return Value{K: KInt, T: types.Typ[types.Int], S: "0"}
	}
	dArr := mkSelect(h, dst.Rid)
	sArr := mkSelect(h, src.Rid)
	var na string
	if nv, ok := isIntLit(n); ok && nv.Int64() <= 8 {
		na = dArr
		for j := int64(0); j < nv.Int64(); j++ {
			na = mkStore(na, mkAdd(dst.Off, intLit64(j)), mkSelect(sArr, mkAdd(src.Off, intLit64(j))))
		}
	} else {
		na = x.d.fresh("copy.arr", "(Array Int "+es+")")
		st.assume(fmt.Sprintf("(forall ((j!c Int)) (= (select %s j!c) (ite (and (<= %s j!c) (< j!c %s)) (select %s (+ %s (- j!c %s))) (select %s j!c))))",
			na, dst.Off, mkAdd(dst.Off, n), sArr, src.Off, dst.Off, dArr))
	}
	// (for n == 0 the definition of na makes it equal to the old contents)
	x.setHeap(st, name, mkStore(h, dst.Rid, na))
	return Value{K: KInt, T: types.Typ[types.Int], S: n}
}

// havocGoEffects: a spawned goroutine may assign captured variables.
func (x *Exec) havocGoEffects(st *State, fr *Frame, call *ssa.CallCommon) {
	v := x.operand(st, fr, call.Value)
	if v.Fn == nil {
		return
	}
	ws := newWriteSet()
	x.scanFunc(st, fr, v.Fn, v.Binds, ws, 0)
	for c := range ws.cells {
		if cv, ok := st.cells[c]; ok {
			st.cells[c] = x.symbolic(st, cv.T, "go."+c.name)
		}
	}
}

// iterateClosure models "the callee calls this closure any number of times".
func (x *Exec) iterateClosure(st *State, fr *Frame, cv Value, callee string, pos token.Pos, it IterSpec, calleeEnv *SpecEnv) {
	cc := x.contractOf(funcKey(cv.Fn))
	preSt := st.clone()
	var preNames map[string]Value
	envOf := func() *SpecEnv {
		e := &SpecEnv{x: x, st: st, old: st, names: map[string]Value{}, pkg: cv.Fn.Pkg.Pkg}
		for i, fv := range cv.Fn.FreeVars {
			if i < len(cv.Binds) {
				e.names[fv.Name()] = x.load(st, cv.Binds[i], pos)
			}
		}
		if preNames == nil {
			preNames = e.names
		}
		e.pre, e.preNames = preSt, preNames
		return e
	}
	if cc != nil {
		x.usedContracts[funcKey(cv.Fn)] = true
		e := envOf()
		for _, inv := range cc.IterInv {
			x.oblige(st, "iter-init", callee+":"+inv.Label, e.evalBool(inv.E), pos)
		}
	}
	ws := newWriteSet()
	x.scanFunc(st, fr, cv.Fn, cv.Binds, ws, 0)
	if cc != nil && cc.HasAssign && !ws.all {
		// the callback has a frame (proved per invocation on its own unit, with the
		// stability obligations that make it compose over invocations): captured
		// variables it assigns are havocked, heaps change only inside the frame
		// (element windows widened to their regions) and in fresh objects
		heaps := ws.heaps
		ws.heaps = map[string]string{}
		pe := envOf()
		pe.st, pe.old = preSt, preSt
		bound := st.alloc
		x.havocWriteSet(st, ws, "iterates")
		names := make([]string, 0, len(heaps))
		for n := range heaps {
			names = append(names, n)
		}
		sort.Strings(names)
		for _, n := range names {
			if strings.HasPrefix(n, "IT$") {
				continue
			}
			init := x.heapTerm(st, n, heaps[n])
			fp := x.footprintFor(pe, cc.Assigns, n).widen()
			final := x.d.fresh("it."+n, heaps[n])
			x.setHeap(st, n, final)
			defer x.assumeHeapWF(st, n, final) // (after the allocation counter was bumped)
			if fp == nil || !fp.whole {
				st.assume(x.frameFormula(n, final, init, fp, bound))
			}
		}
	} else {
		x.havocWriteSet(st, ws, "iterates")
	}
	x.bumpAlloc(st)
	if cc != nil {
		e := envOf()
		for _, inv := range cc.IterInv {
			st.assume(e.evalBool(inv.E))
		}
		// coverage promised by the callee: every argument tuple satisfying `covering` was passed
		// at least once, so the callback's per-argument facts (iterpost: established by that
		// invocation and stable afterwards, both proved on the callback unit) hold for it now -
		// provided no invocation answered "stop" (`unless`), which the callback's own proved
		// postconditions must exclude
		if it.Covering != nil && len(cc.IterPost) > 0 {
			if it.Unless != nil {
				rst := st.clone()
				sig := cv.Fn.Signature
				var res []Value
				for i := 0; i < sig.Results().Len(); i++ {
					res = append(res, x.symbolic(rst, sig.Results().At(i).Type(), "cbres"))
				}
				ce := envOf()
				ce.st, ce.old = rst, rst
				for _, p := range cv.Fn.Params {
					ce.names[p.Name()] = x.symbolic(rst, p.Type(), "cbany."+p.Name())
				}
				ce.results, ce.sig = res, sig
				for _, en := range cc.Ensures {
					func() {
						defer func() {
							if r := recover(); r != nil {
								if _, ok := r.(*SpecError); !ok {
									panic(r)
								}
							}
						}()
						rst.assume(ce.evalBool(en.E))
					}()
				}
				ue := &SpecEnv{x: x, st: rst, old: rst, names: map[string]Value{}, pkg: calleeEnv.pkg}
				for i, r := range res {
					ue.names[fmt.Sprintf("$result%d", i)] = r
				}
				x.oblige(rst, "iter-nonstop", callee+":"+cv.Fn.Name(), mkNot(ue.evalBool(it.Unless)), pos)
			}
			ae := envOf()
			we := &SpecEnv{x: x, st: st, old: st, names: map[string]Value{}, pkg: calleeEnv.pkg}
			for k, v := range calleeEnv.names {
				we.names[k] = v
			}
			var binders []string
			x.underBinder++
			for _, p := range cv.Fn.Params {
				x.d.n++
				bn := fmt.Sprintf("%s!c%d", sanitize(p.Name()), x.d.n)
				binders = append(binders, "("+bn+" "+x.tc.sortOf(p.Type())+")")
				bv := x.tc.unpack(nil, p.Type(), bn)
				bv.T = p.Type()
				ae.names[p.Name()] = bv
				we.names["$"+p.Name()] = bv
			}
			cov := we.evalBool(it.Covering)
			var posts []string
			for _, ip := range cc.IterPost {
				posts = append(posts, ae.evalBool(ip.E))
			}
			x.underBinder--
			st.assume("(forall (" + strings.Join(binders, " ") + ") (=> " + cov + " " + mkAnd(posts...) + "))")
		}
		// the callback's own preconditions hold for every invocation: arbitrary
		// arguments constrained only by what the callee promises (the with clause)
		if len(cc.Requires) > 0 {
			ast := st.clone()
			ae := envOf()
			ae.st, ae.old = ast, ast
			we := &SpecEnv{x: x, st: ast, old: ast, names: map[string]Value{}, pkg: calleeEnv.pkg}
			for k, v := range calleeEnv.names {
				we.names[k] = v
			}
			for _, p := range cv.Fn.Params {
				av := x.symbolic(ast, p.Type(), "cbarg."+p.Name())
				ae.names[p.Name()] = av
				we.names["$"+p.Name()] = av
			}
			if it.With != nil {
				ast.assume(we.evalBool(it.With))
			}
			for _, r := range cc.Requires {
				x.oblige(ast, "iter-pre", callee+":"+cv.Fn.Name()+":"+r.Label, ae.evalBool(r.E), pos)
			}
		}
	}
	x.note("callback %s invoked any number of times by %s (iteration invariant of the closure)", cv.Fn.Name(), callee)
}


// assumeDecoded: the target of a decode is a generated protobuf message (a struct of a
// ".../pb" package): the generated Unmarshal appends a freshly allocated element before it
// decodes into it, so the elements of a repeated message field are never nil (ledger:
// "protobuf decode").  Everything else about the message stays arbitrary: optional message
// fields may be nil, byte fields have any length.
func (x *Exec) assumeDecoded(st *State, p Value) {
	et := pointee(p.T)
	if et == nil {
		return
	}
	n, ok := et.(*types.Named)
	if !ok || n.Obj().Pkg() == nil || !strings.HasSuffix(n.Obj().Pkg().Path(), "/pb") {
		return
	}
	stt, ok := et.Underlying().(*types.Struct)
	if !ok {
		return
	}
	if p.K == KRef {
		st.assume(mkNot(mkEq(p.S, "0")))
	}
	defer func() { recover() }() // a target that cannot be loaded is left arbitrary
	x.specEval++
	obj := x.load(st, p, token.NoPos)
	x.specEval--
	if obj.K != KStruct || len(obj.Fields) != stt.NumFields() {
		return
	}
	for i := 0; i < stt.NumFields(); i++ {
		sl, ok := stt.Field(i).Type().Underlying().(*types.Slice)
		if !ok {
			continue
		}
		if _, isPtr := sl.Elem().Underlying().(*types.Pointer); !isPtr {
			continue
		}
		f := obj.Fields[i]
		if f.K != KSlice {
			continue
		}
		x.d.n++
		k := fmt.Sprintf("dk!q%d", x.d.n)
		x.underBinder++
		el := x.loadElem(st, f.Rid, mkAdd(f.Off, k), sl.Elem())
		x.underBinder--
		body := mkImp(mkAnd(mkCmp("<=", "0", k), mkCmp("<", k, f.Len)), mkNot(mkEq(el.S, "0")))
		st.assume("(forall ((" + k + " Int)) (! " + body + " :pattern (" + el.S + ")))")
	}
}

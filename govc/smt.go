package main

// SMT term construction.  Terms are plain SMT-LIB2 strings; the helpers do
// light constant folding so that concrete lengths, offsets and counters stay
// literal and VCs stay small.

import (
	"fmt"
	"math/big"
	"sort"
	"strings"
)

const (
	sBool = "Bool"
	sInt  = "Int"
	sBV8  = "(_ BitVec 8)"
	sStr  = "Str"
	sSlc  = "Slc"
	sReal = "Real"
)

const tTrue, tFalse = "true", "false"

func isIntLit(t string) (*big.Int, bool) {
	if t == "" {
		return nil, false
	}
	s := t
	neg := false
	if strings.HasPrefix(s, "(- ") && strings.HasSuffix(s, ")") && !strings.Contains(s[3:], " ") {
		neg = true
		s = s[3 : len(s)-1]
	}
	for _, c := range s {
		if c < '0' || c > '9' {
			return nil, false
		}
	}
	if s == "" {
		return nil, false
	}
	v, ok := new(big.Int).SetString(s, 10)
	if !ok {
		return nil, false
	}
	if neg {
		v.Neg(v)
	}
	return v, true
}

func intLit(v *big.Int) string {
	if v.Sign() < 0 {
		return "(- " + new(big.Int).Neg(v).String() + ")"
	}
	return v.String()
}

func intLit64(v int64) string { return intLit(big.NewInt(v)) }

func mkNot(a string) string {
	switch a {
	case tTrue:
		return tFalse
	case tFalse:
		return tTrue
	}
	if strings.HasPrefix(a, "(not ") {
		return a[5 : len(a)-1]
	}
	return "(not " + a + ")"
}

func mkAnd(xs ...string) string {
	var out []string
	for _, x := range xs {
		if x == tTrue || x == "" {
			continue
		}
		if x == tFalse {
			return tFalse
		}
		out = append(out, x)
	}
	switch len(out) {
	case 0:
		return tTrue
	case 1:
		return out[0]
	}
	return "(and " + strings.Join(out, " ") + ")"
}

func mkOr(xs ...string) string {
	var out []string
	for _, x := range xs {
		if x == tFalse || x == "" {
			continue
		}
		if x == tTrue {
			return tTrue
		}
		out = append(out, x)
	}
	switch len(out) {
	case 0:
		return tFalse
	case 1:
		return out[0]
	}
	return "(or " + strings.Join(out, " ") + ")"
}

func mkImp(a, b string) string {
	if a == tTrue {
		return b
	}
	if a == tFalse || b == tTrue {
		return tTrue
	}
	if b == tFalse {
		return mkNot(a)
	}
	return "(=> " + a + " " + b + ")"
}

func mkEq(a, b string) string {
	if a == b {
		return tTrue
	}
	if x, ok := isIntLit(a); ok {
		if y, ok := isIntLit(b); ok {
			if x.Cmp(y) == 0 {
				return tTrue
			}
			return tFalse
		}
	}
	if (a == tTrue && b == tFalse) || (a == tFalse && b == tTrue) {
		return tFalse
	}
	if strings.HasPrefix(a, "#x") && strings.HasPrefix(b, "#x") {
		return tFalse // different literals (a != b checked above)
	}
	return "(= " + a + " " + b + ")"
}

func mkIte(c, a, b string) string {
	if c == tTrue {
		return a
	}
	if c == tFalse {
		return b
	}
	if a == b {
		return a
	}
	return "(ite " + c + " " + a + " " + b + ")"
}

func mkAdd(a, b string) string {
	x, okx := isIntLit(a)
	y, oky := isIntLit(b)
	if okx && oky {
		return intLit(new(big.Int).Add(x, y))
	}
	if okx && x.Sign() == 0 {
		return b
	}
	if oky && y.Sign() == 0 {
		return a
	}
	// a + (k - a) = k  (absolute indices written relative to a slice offset)
	if strings.HasPrefix(b, "(- ") && strings.HasSuffix(b, " "+a+")") {
		if inner := b[3 : len(b)-len(a)-2]; balanced(inner) {
			return inner
		}
	}
	return "(+ " + a + " " + b + ")"
}

// balanced: s is one well-formed term (a token or a parenthesised term).
func balanced(s string) bool {
	if s == "" {
		return false
	}
	depth := 0
	for i, c := range s {
		switch c {
		case '(':
			depth++
		case ')':
			depth--
			if depth < 0 {
				return false
			}
		case ' ':
			if depth == 0 {
				return false
			}
		}
		_ = i
	}
	return depth == 0
}

func mkSub(a, b string) string {
	x, okx := isIntLit(a)
	y, oky := isIntLit(b)
	if okx && oky {
		return intLit(new(big.Int).Sub(x, y))
	}
	if oky && y.Sign() == 0 {
		return a
	}
	if a == b {
		return "0"
	}
	return "(- " + a + " " + b + ")"
}

func mkMul(a, b string) string {
	x, okx := isIntLit(a)
	y, oky := isIntLit(b)
	if okx && oky {
		return intLit(new(big.Int).Mul(x, y))
	}
	if okx && x.Cmp(big.NewInt(1)) == 0 {
		return b
	}
	if oky && y.Cmp(big.NewInt(1)) == 0 {
		return a
	}
	if (okx && x.Sign() == 0) || (oky && y.Sign() == 0) {
		return "0"
	}
	return "(* " + a + " " + b + ")"
}

func mkCmp(op, a, b string) string {
	x, okx := isIntLit(a)
	y, oky := isIntLit(b)
	if okx && oky {
		c := x.Cmp(y)
		var r bool
		switch op {
		case "<":
			r = c < 0
		case "<=":
			r = c <= 0
		case ">":
			r = c > 0
		case ">=":
			r = c >= 0
		}
		if r {
			return tTrue
		}
		return tFalse
	}
	if a == b {
		if op == "<=" || op == ">=" {
			return tTrue
		}
		return tFalse
	}
	return "(" + op + " " + a + " " + b + ")"
}

func mkSelect(a, i string) string {
	// read-over-write at a syntactically identical index; skip writes at
	// literal indices known to differ
	for strings.HasPrefix(a, "(store ") {
		p := splitTop(a)
		if len(p) != 4 {
			break
		}
		if p[2] == i {
			return p[3]
		}
		x, okx := isIntLit(p[2])
		y, oky := isIntLit(i)
		if okx && oky && x.Cmp(y) != 0 {
			a = p[1]
			continue
		}
		break
	}
	return "(select " + a + " " + i + ")"
}
func mkStore(a, i, v string) string {
	return "(store " + a + " " + i + " " + v + ")"
}

func pow2(n int) *big.Int { return new(big.Int).Lsh(big.NewInt(1), uint(n)) }

// euclidean mod by a positive literal
func mkMod(a string, m *big.Int) string {
	if x, ok := isIntLit(a); ok {
		r := new(big.Int).Mod(x, m)
		return intLit(r)
	}
	return "(mod " + a + " " + intLit(m) + ")"
}

// wrapInt returns term reduced to the range of an n-bit (un)signed integer.
func wrapInt(term string, bits int, signed bool) string {
	m := pow2(bits)
	if x, ok := isIntLit(term); ok {
		r := new(big.Int).Mod(x, m)
		if signed && r.Cmp(pow2(bits-1)) >= 0 {
			r.Sub(r, m)
		}
		return intLit(r)
	}
	// exact machine semantics, written so that the common in-range case is the
	// term itself: a bare "mod" definition gets inlined by the solvers'
	// preprocessing and then defeats E-matching on index terms built from it
	// The VC uses a macro (wrap_s64 …); the prelude defines it.  Two equivalent
	// definitions exist (variant A: ite-form, variant B: plain mod) and the
	// portfolio tries both, because each defeats the solvers' E-matching on a
	// different class of goals.
	if bits == 8 || bits == 16 || bits == 32 || bits == 64 {
		if signed {
			return fmt.Sprintf("(wrap_s%d %s)", bits, term)
		}
		return fmt.Sprintf("(wrap_u%d %s)", bits, term)
	}
	if !signed {
		return "(ite " + inRange(term, bits, false) + " " + term + " (mod " + term + " " + intLit(m) + "))"
	}
	h := intLit(pow2(bits - 1))
	return "(ite " + inRange(term, bits, true) + " " + term + " (- (mod (+ " + term + " " + h + ") " + intLit(m) + ") " + h + "))"
}

// wrapDefs returns the define-funs of the wrap macros; variant "A" = ite-form
// (identity when in range), "B" = bare modular form.
func wrapDefs(variant string) string {
	var sb strings.Builder
	for _, bits := range []int{8, 16, 32, 64} {
		m := intLit(pow2(bits))
		h := intLit(pow2(bits - 1))
		uMod := "(mod x " + m + ")"
		sMod := "(- (mod (+ x " + h + ") " + m + ") " + h + ")"
		u, s := uMod, sMod
		if variant == "A" {
			u = "(ite " + inRange("x", bits, false) + " x " + uMod + ")"
			s = "(ite " + inRange("x", bits, true) + " x " + sMod + ")"
		}
		fmt.Fprintf(&sb, "(define-fun wrap_u%d ((x Int)) Int %s)\n(define-fun wrap_s%d ((x Int)) Int %s)\n", bits, u, bits, s)
	}
	return sb.String()
}

const wrapMarkBegin = "; <wrap-defs>\n"
const wrapMarkEnd = "; </wrap-defs>\n"

func inRange(term string, bits int, signed bool) string {
	if signed {
		lo := new(big.Int).Neg(pow2(bits - 1))
		hi := new(big.Int).Sub(pow2(bits-1), big.NewInt(1))
		return mkAnd(mkCmp("<=", intLit(lo), term), mkCmp("<=", term, intLit(hi)))
	}
	hi := new(big.Int).Sub(pow2(bits), big.NewInt(1))
	return mkAnd(mkCmp("<=", "0", term), mkCmp("<=", term, intLit(hi)))
}

func bv8Lit(v uint8) string { return fmt.Sprintf("#x%02x", v) }

func isBV8Lit(t string) (uint8, bool) {
	if len(t) == 4 && strings.HasPrefix(t, "#x") {
		var v uint8
		if _, err := fmt.Sscanf(t[2:], "%02x", &v); err == nil {
			return v, true
		}
	}
	return 0, false
}

// b2i: BV8 -> Int (defined in prelude)
func mkB2I(b string) string {
	if v, ok := isBV8Lit(b); ok {
		return intLit64(int64(v))
	}
	return "(b2i " + b + ")"
}

func sanitize(s string) string {
	var sb strings.Builder
	for _, c := range s {
		switch {
		case c >= 'a' && c <= 'z', c >= 'A' && c <= 'Z', c >= '0' && c <= '9', c == '_', c == '.', c == '$', c == '!':
			sb.WriteRune(c)
		case c == '/':
			sb.WriteByte('.')
		case c == '*':
			sb.WriteString("P")
		default:
			sb.WriteByte('_')
		}
	}
	return sb.String()
}

// Decls is the set of declarations accumulated while executing one unit.
type Decls struct {
	order []string          // declaration lines in order
	seen  map[string]bool   // symbol names
	sorts map[string]bool   // uninterpreted sorts
	dts   map[string]string // datatype decls by sort name
	n     int
}

func newDecls() *Decls {
	return &Decls{seen: map[string]bool{}, sorts: map[string]bool{}, dts: map[string]string{}}
}

func (d *Decls) declareSort(name string) {
	if d.sorts[name] || name == sBool || name == sInt || name == sBV8 || name == sReal || name == sSlc || strings.HasPrefix(name, "(") {
		return
	}
	if _, ok := d.dts[name]; ok {
		return
	}
	d.sorts[name] = true
	d.order = append(d.order, "(declare-sort "+name+" 0)")
}

func (d *Decls) declareDatatype(name, decl string) {
	if _, ok := d.dts[name]; ok {
		return
	}
	d.dts[name] = decl
	d.order = append(d.order, decl)
}

func (d *Decls) constant(name, sort string) string {
	if !d.seen[name] {
		d.seen[name] = true
		d.order = append(d.order, "(declare-fun "+name+" () "+sort+")")
	}
	return name
}

func (d *Decls) fresh(prefix, sort string) string {
	d.n++
	name := fmt.Sprintf("%s!%d", sanitize(prefix), d.n)
	return d.constant(name, sort)
}

func (d *Decls) fun(name string, args []string, ret string) {
	if d.seen[name] {
		return
	}
	d.seen[name] = true
	d.order = append(d.order, "(declare-fun "+name+" ("+strings.Join(args, " ")+") "+ret+")")
}

func (d *Decls) raw(key, line string) {
	if d.seen[key] {
		return
	}
	d.seen[key] = true
	d.order = append(d.order, line)
}

const prelude = `(set-option :produce-models true)
(set-logic ALL)
(declare-datatypes ((Slc 0)) (((mkslc (s_rid Int) (s_off Int) (s_len Int) (s_cap Int)))))
(declare-sort Str 0)
(declare-fun strlen (Str) Int)
(define-fun b2i ((b (_ BitVec 8))) Int (+ (ite (= #b1 ((_ extract 0 0) b)) 1 0) (ite (= #b1 ((_ extract 1 1) b)) 2 0) (ite (= #b1 ((_ extract 2 2) b)) 4 0) (ite (= #b1 ((_ extract 3 3) b)) 8 0) (ite (= #b1 ((_ extract 4 4) b)) 16 0) (ite (= #b1 ((_ extract 5 5) b)) 32 0) (ite (= #b1 ((_ extract 6 6) b)) 64 0) (ite (= #b1 ((_ extract 7 7) b)) 128 0)))
`

func sortedKeys[V any](m map[string]V) []string {
	ks := make([]string, 0, len(m))
	for k := range m {
		ks = append(ks, k)
	}
	sort.Strings(ks)
	return ks
}

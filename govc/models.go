package main

// Built-in models of library functions (the assumed contracts of ledger
// item 2 that are easier to state in Go than in the contract language).

import (
	"fmt"
	"go/token"
	"go/types"
	"strings"

	"golang.org/x/tools/go/ssa"
)

type modelFn func(x *Exec, st *State, fr *Frame, fn *ssa.Function, args []Value, pos token.Pos) []Outcome

var models = map[string]modelFn{}
var modelEffects = map[string]func(x *Exec, fn *ssa.Function, ws *writeSet){}

func (x *Exec) lockKey(v Value) string {
	switch v.K {
	case KPtr:
		switch v.B {
		case BObj:
			return fmt.Sprintf("obj:%s:%v", v.Ref, v.Path)
		case BCell:
			return fmt.Sprintf("cell:%d:%v", v.Cell.id, v.Path)
		}
	case KRef:
		return "ref:" + v.S
	}
	return "lock:" + v.String()
}

const bigHeap = "O$math.big.Int"

func (x *Exec) bigVal(st *State, ref string) string {
	h := x.heapTerm(st, bigHeap, "(Array Int Int)")
	return mkSelect(h, ref)
}

func (x *Exec) setBigVal(st *State, ref, v string) {
	h := x.heapTerm(st, bigHeap, "(Array Int Int)")
	x.setHeap(st, bigHeap, mkStore(h, ref, v))
}

// seqOf abstracts the contents of a byte slice as a value of sort Bytes with
// extensional equality (axioms added once).
func (x *Exec) seqOf(st *State, v Value) Value {
	if v.K != KSlice {
		specFail("seq(): not a slice")
	}
	x.needSeq()
	et := v.T.Underlying().(*types.Slice).Elem()
	arr := x.regionTerm(st, v.Rid, et)
	return Value{K: KOpaque, S: "(seq " + arr + " " + v.Off + " " + v.Len + ")"}
}

func (x *Exec) needSeq() {
	if x.d.seen["seq"] {
		return
	}
	x.d.declareSort("Bytes")
	x.d.fun("seq", []string{"(Array Int (_ BitVec 8))", sInt, sInt}, "Bytes")
	x.d.fun("seqlen", []string{"Bytes"}, sInt)
	x.d.fun("seqat", []string{"Bytes", sInt}, sBV8)
}

// needSeqExt adds extensionality of byte sequences (only where equality of
// contents must imply equality of the abstractions: bytes.Equal).
func (x *Exec) needSeqExt() {
	x.needSeq()
	if x.d.seen["seq-ext"] {
		return
	}
	x.d.seen["seq-ext"] = true
	x.axioms = append(x.axioms,
		"(forall ((a (Array Int (_ BitVec 8))) (o Int) (l Int)) (! (=> (>= l 0) (= (seqlen (seq a o l)) l)) :pattern ((seq a o l))))",
		"(forall ((a (Array Int (_ BitVec 8))) (o Int) (l Int) (i Int)) (! (=> (and (<= 0 i) (< i l)) (= (seqat (seq a o l) i) (select a (+ o i)))) :pattern ((seqat (seq a o l) i))))",
		"(forall ((s Bytes) (t Bytes)) (! (=> (and (= (seqlen s) (seqlen t)) (forall ((i Int)) (=> (and (<= 0 i) (< i (seqlen s))) (= (seqat s i) (seqat t i))))) (= s t)) :pattern ((seqlen s) (seqlen t))))")
}

func (x *Exec) errIs(st *State, e, target string) string {
	x.d.fun("errIs", []string{sInt, sInt}, sBool)
	t := "(errIs " + e + " " + target + ")"
	// reflexive for non-nil, nil is nothing
	st.assume(mkImp(mkEq(e, target), mkEq(t, mkNot(mkEq(e, "0")))))
	st.assume(mkImp(mkEq(e, "0"), mkNot(t)))
	return t
}

func errT() types.Type { return types.Universe.Lookup("error").Type() }

func (x *Exec) freshErr(st *State, name string) Value {
	v := x.symbolic(st, errT(), name)
	return v
}

func (x *Exec) nonNilErr(st *State, name string) Value {
	v := x.newErr(st, name)
	st.assume(mkNot(mkEq(v.S, "0")))
	return v
}

// newErr: nil or an error value created by the callee (errors.New / Errorf
// style): distinct from every error that existed at unit entry, in particular
// from the package-level sentinels.
func (x *Exec) newErr(st *State, name string) Value {
	id := x.allocRef(st) // a fresh identity
	c := x.d.fresh(name, sInt)
	st.assume(mkOr(mkEq(c, "0"), mkEq(c, id)))
	return Value{K: KIface, T: errT(), S: c}
}

func init() {
	// ---- bytes ---------------------------------------------------------
	models["bytes.Equal"] = func(x *Exec, st *State, fr *Frame, fn *ssa.Function, args []Value, pos token.Pos) []Outcome {
		a, b := args[0], args[1]
		x.needSeqExt()
		sa, sb := x.seqOf(st, a), x.seqOf(st, b)
		r := x.d.fresh("bytesEqual", sBool)
		// equal iff same length and same contents
		et := a.T.Underlying().(*types.Slice).Elem()
		aa, ba := x.regionTerm(st, a.Rid, et), x.regionTerm(st, b.Rid, et)
		q := fmt.Sprintf("(forall ((i!e Int)) (=> (and (<= 0 i!e) (< i!e %s)) (= (select %s (+ %s i!e)) (select %s (+ %s i!e)))))", a.Len, aa, a.Off, ba, b.Off)
		st.assume(mkEq(r, mkAnd(mkEq(a.Len, b.Len), q)))
		st.assume(mkEq(r, mkEq(sa.S, sb.S)))
		return single(st, boolV(r))
	}
	// ---- errors --------------------------------------------------------
	models["errors.New"] = func(x *Exec, st *State, fr *Frame, fn *ssa.Function, args []Value, pos token.Pos) []Outcome {
		return single(st, x.nonNilErr(st, "errors.New"))
	}
	models["fmt.Errorf"] = func(x *Exec, st *State, fr *Frame, fn *ssa.Function, args []Value, pos token.Pos) []Outcome {
		return single(st, x.nonNilErr(st, "fmt.Errorf"))
	}
	// fmt.Sprintf with up to three operands: the result is a function of the format and of the
	// operands' interface identities (themselves functions of scalar payloads).  Lets a contract
	// say which values a formatted key is made from (spec builtin sprintf).
	models["fmt.Sprintf"] = func(x *Exec, st *State, fr *Frame, fn *ssa.Function, args []Value, pos token.Pos) []Outcome {
		if len(args) != 2 || args[1].K != KSlice || args[0].K != KStr {
			return nil
		}
		n, ok := isIntLit(args[1].Len)
		if !ok || !n.IsInt64() || n.Int64() > 3 {
			return nil
		}
		et := args[1].T.Underlying().(*types.Slice).Elem()
		terms, sorts := []string{args[0].S}, []string{sStr}
		for i := int64(0); i < n.Int64(); i++ {
			el := x.loadElem(st, args[1].Rid, mkAdd(args[1].Off, intLit64(i)), et)
			terms = append(terms, el.S)
			sorts = append(sorts, sInt)
		}
		name := fmt.Sprintf("pure.fmt.Sprintf.%d", n.Int64())
		x.d.fun(name, sorts, sStr)
		x.pureCalls["fmt.Sprintf"] = true
		return single(st, Value{K: KStr, T: types.Typ[types.String], S: "(" + name + " " + strings.Join(terms, " ") + ")"})
	}
	models["errors.Is"] = func(x *Exec, st *State, fr *Frame, fn *ssa.Function, args []Value, pos token.Pos) []Outcome {
		return single(st, boolV(x.errIs(st, args[0].S, args[1].S)))
	}
	// ---- sync ----------------------------------------------------------
	lock := func(mode string) modelFn {
		return func(x *Exec, st *State, fr *Frame, fn *ssa.Function, args []Value, pos token.Pos) []Outcome {
			k := x.lockKey(args[0])
			st.held[k] = mode
			if p := args[0]; p.K == KPtr && p.B == BObj && len(p.Path) == 1 {
				if st.heldRef == nil {
					st.heldRef = map[string]string{}
				}
				st.heldRef[k] = p.Ref
			}
			return single(st)
		}
	}
	unlock := func(x *Exec, st *State, fr *Frame, fn *ssa.Function, args []Value, pos token.Pos) []Outcome {
		delete(st.held, x.lockKey(args[0]))
		delete(st.heldRef, x.lockKey(args[0]))
		return single(st)
	}
	models["(*sync.Mutex).Lock"] = lock("w")
	models["(*sync.Mutex).Unlock"] = unlock
	models["(*sync.RWMutex).Lock"] = lock("w")
	models["(*sync.RWMutex).Unlock"] = unlock
	models["(*sync.RWMutex).RLock"] = lock("r")
	models["(*sync.RWMutex).RUnlock"] = unlock
	noop := func(x *Exec, st *State, fr *Frame, fn *ssa.Function, args []Value, pos token.Pos) []Outcome {
		var res []Value
		for i := 0; i < fn.Signature.Results().Len(); i++ {
			res = append(res, x.symbolic(st, fn.Signature.Results().At(i).Type(), "r."+fn.Name()))
		}
		return single(st, res...)
	}
	for _, k := range []string{"(*sync.WaitGroup).Add", "(*sync.WaitGroup).Done", "(*sync.WaitGroup).Wait", "(*sync.Once).Do",
		"runtime.Gosched", "time.Sleep", "runtime.KeepAlive"} {
		models[k] = noop
	}
	// ---- math/big ------------------------------------------------------
	bigT := func(fn *ssa.Function) types.Type { return fn.Signature.Recv().Type() }
	models["math/big.NewInt"] = func(x *Exec, st *State, fr *Frame, fn *ssa.Function, args []Value, pos token.Pos) []Outcome {
		ref := x.allocRef(st)
		x.setBigVal(st, ref, args[0].S)
		return single(st, Value{K: KRef, T: fn.Signature.Results().At(0).Type(), S: ref})
	}
	binBig := func(op func(a, b string) string) modelFn {
		return func(x *Exec, st *State, fr *Frame, fn *ssa.Function, args []Value, pos token.Pos) []Outcome {
			z, a, b := args[0], args[1], args[2]
			x.safetyCheck(st, "nil", mkAnd(mkNot(mkEq(z.S, "0")), mkNot(mkEq(a.S, "0")), mkNot(mkEq(b.S, "0"))), pos)
			x.setBigVal(st, z.S, op(x.bigVal(st, a.S), x.bigVal(st, b.S)))
			return single(st, Value{K: KRef, T: bigT(fn), S: z.S})
		}
	}
	models["(*math/big.Int).Add"] = binBig(mkAdd)
	models["(*math/big.Int).Sub"] = binBig(mkSub)
	models["(*math/big.Int).Mul"] = binBig(mkMul)
	models["(*math/big.Int).Set"] = func(x *Exec, st *State, fr *Frame, fn *ssa.Function, args []Value, pos token.Pos) []Outcome {
		z, a := args[0], args[1]
		x.safetyCheck(st, "nil", mkAnd(mkNot(mkEq(z.S, "0")), mkNot(mkEq(a.S, "0"))), pos)
		x.setBigVal(st, z.S, x.bigVal(st, a.S))
		return single(st, Value{K: KRef, T: bigT(fn), S: z.S})
	}
	models["(*math/big.Int).SetInt64"] = func(x *Exec, st *State, fr *Frame, fn *ssa.Function, args []Value, pos token.Pos) []Outcome {
		z := args[0]
		x.safetyCheck(st, "nil", mkNot(mkEq(z.S, "0")), pos)
		x.setBigVal(st, z.S, args[1].S)
		return single(st, Value{K: KRef, T: bigT(fn), S: z.S})
	}
	models["(*math/big.Int).SetUint64"] = models["(*math/big.Int).SetInt64"]
	models["(*math/big.Int).Cmp"] = func(x *Exec, st *State, fr *Frame, fn *ssa.Function, args []Value, pos token.Pos) []Outcome {
		a, b := args[0], args[1]
		x.safetyCheck(st, "nil", mkAnd(mkNot(mkEq(a.S, "0")), mkNot(mkEq(b.S, "0"))), pos)
		av, bv := x.bigVal(st, a.S), x.bigVal(st, b.S)
		return single(st, intV(mkIte(mkCmp("<", av, bv), "(- 1)", mkIte(mkCmp(">", av, bv), "1", "0"))))
	}
	models["(*math/big.Int).Sign"] = func(x *Exec, st *State, fr *Frame, fn *ssa.Function, args []Value, pos token.Pos) []Outcome {
		a := args[0]
		// Sign on a nil *big.Int does not panic (len of nil slice) — no obligation
		av := x.bigVal(st, a.S)
		return single(st, intV(mkIte(mkCmp("<", av, "0"), "(- 1)", mkIte(mkCmp(">", av, "0"), "1", "0"))))
	}
	models["(*math/big.Int).Neg"] = func(x *Exec, st *State, fr *Frame, fn *ssa.Function, args []Value, pos token.Pos) []Outcome {
		z, a := args[0], args[1]
		x.safetyCheck(st, "nil", mkAnd(mkNot(mkEq(z.S, "0")), mkNot(mkEq(a.S, "0"))), pos)
		x.setBigVal(st, z.S, mkSub("0", x.bigVal(st, a.S)))
		return single(st, Value{K: KRef, T: bigT(fn), S: z.S})
	}
	for _, k := range []string{"(*math/big.Int).Add", "(*math/big.Int).Sub", "(*math/big.Int).Mul", "(*math/big.Int).Set",
		"(*math/big.Int).SetInt64", "(*math/big.Int).SetUint64", "(*math/big.Int).Neg", "math/big.NewInt"} {
		modelEffects[k] = func(x *Exec, fn *ssa.Function, ws *writeSet) { ws.heaps[bigHeap] = "(Array Int Int)" }
	}
}

// new(big.Int) is an Alloc of an opaque type: handled in opaque heap; give it value 0.

package main

import "strings"

// Trigger inference for quantifiers that come from contracts.  Left to themselves
// the solvers pick triggers such as (+ off k) or nothing usable at all; the terms
// that really index the heaps, (select A idx) with the bound variables only in the
// index, are stable handles.  A pattern is attached only when one such term mentions
// every bound variable; otherwise the quantifier is left as it is.

// selectTriggers collects sub-terms (select A I) of t where I mentions a bound
// variable and A mentions none.
func selectTriggers(t string, bound map[string]bool, out *[]string, seen map[string]bool) {
	parts := splitTop(t)
	if parts == nil {
		return
	}
	if len(parts) == 3 && parts[0] == "select" && mentionsAny(parts[2], bound) && !mentionsAny(parts[1], bound) {
		if !seen[t] {
			seen[t] = true
			*out = append(*out, t)
		}
	}
	// application of an uninterpreted contract function with a bound variable as a
	// direct argument, e.g. (spec.u8 v)
	if strings.HasPrefix(parts[0], "spec.") {
		direct := false
		for _, a := range parts[1:] {
			if bound[a] {
				direct = true
			}
		}
		if direct && !seen[t] {
			seen[t] = true
			*out = append(*out, t)
		}
	}
	for _, p := range parts[1:] {
		if len(p) > 0 && p[0] == '(' {
			selectTriggers(p, bound, out, seen)
		}
	}
}

func mentionsAny(t string, bound map[string]bool) bool {
	for b := range bound {
		if mentionsTok(t, b) {
			return true
		}
	}
	return false
}

// mentionsTok: b occurs in t as a whole token.
func mentionsTok(t, b string) bool {
	i := 0
	for {
		j := strings.Index(t[i:], b)
		if j < 0 {
			return false
		}
		j += i
		before := j == 0 || t[j-1] == ' ' || t[j-1] == '('
		k := j + len(b)
		after := k == len(t) || t[k] == ' ' || t[k] == ')'
		if before && after {
			return true
		}
		i = j + 1
	}
}

// autoPatterns returns " :pattern (t1) :pattern (t2) ..." (possibly empty).
func autoPatterns(body string, names []string) string {
	if strings.Contains(body, ":pattern") {
		return ""
	}
	bound := map[string]bool{}
	for _, n := range names {
		bound[n] = true
	}
	var cands []string
	selectTriggers(body, bound, &cands, map[string]bool{})
	usable := func(c string) bool {
		return !(strings.Contains(c, "(forall ") || strings.Contains(c, "(exists ") || strings.Contains(c, "(let ") || strings.Contains(c, "(ite ") || strings.Contains(c, "(=> ") || strings.Contains(c, "(and ") || strings.Contains(c, "(or ") || strings.Contains(c, "(not ") || strings.Contains(c, "(= "))
	}
	var sb strings.Builder
	n := 0
	defer func() {}()
	single := false
	for _, c := range cands {
		ok := usable(c)
		for _, b := range names {
			if !mentionsTok(c, b) {
				ok = false
			}
		}
		if ok {
			single = true
		}
	}
	if !single && len(names) > 1 {
		// no single term covers all bound variables: one multi-pattern made of the
		// first usable term for each variable
		var multi []string
		covered := map[string]bool{}
		for _, b := range names {
			if covered[b] {
				continue
			}
			found := false
			for _, c := range cands {
				if usable(c) && mentionsTok(c, b) {
					multi = append(multi, c)
					for _, b2 := range names {
						if mentionsTok(c, b2) {
							covered[b2] = true
						}
					}
					found = true
					break
				}
			}
			if !found {
				return ""
			}
		}
		return " :pattern (" + strings.Join(multi, " ") + ")"
	}
	for _, c := range cands {
		all := true
		for _, b := range names {
			if !mentionsTok(c, b) {
				all = false
			}
		}
		// nested quantifiers inside a trigger are not allowed
		if !all || strings.Contains(c, "(forall ") || strings.Contains(c, "(exists ") || strings.Contains(c, "(let ") || strings.Contains(c, "(ite ") || strings.Contains(c, "(=> ") || strings.Contains(c, "(and ") || strings.Contains(c, "(or ") || strings.Contains(c, "(not ") || strings.Contains(c, "(= ") {
			continue
		}
		sb.WriteString(" :pattern (" + c + ")")
		n++
		if n >= 4 {
			break
		}
	}
	return sb.String()
}

// annotateQuantifiers attaches inferred triggers to every quantifier of the term
// that has none (engine-generated array axioms and contract quantifiers alike).
func annotateQuantifiers(t string, memo map[string]string) string {
	if !strings.Contains(t, "(forall ") && !strings.Contains(t, "(exists ") {
		return t
	}
	if r, ok := memo[t]; ok {
		return r
	}
	parts := splitTop(t)
	if parts == nil {
		return t
	}
	out := t
	if len(parts) == 3 && (parts[0] == "forall" || parts[0] == "exists") {
		body := annotateQuantifiers(parts[2], memo)
		if !strings.HasPrefix(body, "(! ") {
			var names []string
			for _, b := range splitTop(parts[1]) {
				if bp := splitTop(b); len(bp) >= 2 {
					names = append(names, bp[0])
				}
			}
			if pats := autoPatterns(body, names); pats != "" {
				body = "(! " + body + pats + ")"
			}
		}
		out = "(" + parts[0] + " " + parts[1] + " " + body + ")"
	} else {
		changed := false
		for i := 1; i < len(parts); i++ {
			if len(parts[i]) > 0 && parts[i][0] == '(' {
				n := annotateQuantifiers(parts[i], memo)
				if n != parts[i] {
					parts[i] = n
					changed = true
				}
			}
		}
		if changed {
			out = "(" + strings.Join(parts, " ") + ")"
		}
	}
	memo[t] = out
	return out
}

package main

import (
	"fmt"
	"go/token"
	"go/types"
	"math/big"
)

func (x *Exec) needPow2() {
	if x.d.seen["pow2"] {
		return
	}
	s := "0"
	for i := 64; i >= 0; i-- {
		s = "(ite (= n " + intLit64(int64(i)) + ") " + intLit(pow2(i)) + " " + s + ")"
	}
	x.d.raw("pow2", "(define-fun pow2 ((n Int)) Int "+s+")")
}

func log2Exact(v *big.Int) int {
	if v.Sign() <= 0 {
		return -1
	}
	n := v.BitLen() - 1
	if new(big.Int).Lsh(big.NewInt(1), uint(n)).Cmp(v) == 0 {
		return n
	}
	return -1
}

// truncated division / remainder (Go semantics) on mathematical ints
func tdiv(a, b string, signed bool) string {
	if !signed {
		return "(div " + a + " " + b + ")"
	}
	if bv, ok := isIntLit(b); ok && bv.Sign() > 0 {
		if av, ok := isIntLit(a); ok {
			return intLit(new(big.Int).Quo(av, bv))
		}
		return "(ite (>= " + a + " 0) (div " + a + " " + b + ") (- (div (- " + a + ") " + b + ")))"
	}
	return "(ite (>= " + a + " 0) (ite (> " + b + " 0) (div " + a + " " + b + ") (- (div " + a + " (- " + b + "))))" +
		" (ite (> " + b + " 0) (- (div (- " + a + ") " + b + ")) (div (- " + a + ") (- " + b + "))))"
}

func trem(a, b string, signed bool) string {
	if !signed {
		return "(mod " + a + " " + b + ")"
	}
	if bv, ok := isIntLit(b); ok && bv.Sign() > 0 {
		if av, ok := isIntLit(a); ok {
			return intLit(new(big.Int).Rem(av, bv))
		}
		return "(ite (>= " + a + " 0) (mod " + a + " " + b + ") (- (mod (- " + a + ") " + b + ")))"
	}
	return mkSub(a, mkMul(b, tdiv(a, b, true)))
}

func (x *Exec) boolVal(t types.Type, s string) Value { return Value{K: KBool, T: t, S: s} }

func (x *Exec) binop(st *State, op token.Token, a, b Value, resT types.Type, pos token.Pos) Value {
	// comparisons first
	switch op {
	case token.EQL, token.NEQ:
		eq := x.valueEq(st, a, b)
		if op == token.NEQ {
			eq = mkNot(eq)
		}
		return x.boolVal(resT, eq)
	case token.LSS, token.LEQ, token.GTR, token.GEQ:
		return x.boolVal(resT, x.compare(st, op, a, b))
	}
	// shifts: operand kinds may differ
	if op == token.SHL || op == token.SHR {
		return x.shift(st, op, a, b, resT)
	}
	switch a.K {
	case KBV8:
		var f string
		switch op {
		case token.ADD:
			f = "bvadd"
		case token.SUB:
			f = "bvsub"
		case token.MUL:
			f = "bvmul"
		case token.QUO:
			x.safetyCheck(st, "div0", mkNot(mkEq(b.S, "#x00")), pos)
			f = "bvudiv"
		case token.REM:
			x.safetyCheck(st, "div0", mkNot(mkEq(b.S, "#x00")), pos)
			f = "bvurem"
		case token.AND:
			f = "bvand"
		case token.OR:
			f = "bvor"
		case token.XOR:
			f = "bvxor"
		case token.AND_NOT:
			return Value{K: KBV8, T: resT, S: "(bvand " + a.S + " (bvnot " + b.S + "))"}
		default:
			unsupported("bv8 binop %v", op)
		}
		return Value{K: KBV8, T: resT, S: "(" + f + " " + a.S + " " + b.S + ")"}
	case KInt:
		bits, signed, ok := intInfo(resT)
		if !ok {
			bits, signed = 64, true
		}
		var r string
		switch op {
		case token.ADD:
			r = wrapInt(mkAdd(a.S, b.S), bits, signed)
		case token.SUB:
			r = wrapInt(mkSub(a.S, b.S), bits, signed)
		case token.MUL:
			r = wrapInt(mkMul(a.S, b.S), bits, signed)
		case token.QUO:
			x.safetyCheck(st, "div0", mkNot(mkEq(b.S, "0")), pos)
			r = tdiv(a.S, b.S, signed)
			if signed {
				r = wrapInt(r, bits, signed) // MinInt / -1
			}
		case token.REM:
			x.safetyCheck(st, "div0", mkNot(mkEq(b.S, "0")), pos)
			r = trem(a.S, b.S, signed)
		case token.AND:
			r = x.bitand(st, a.S, b.S, bits, signed)
		case token.OR, token.XOR, token.AND_NOT:
			r = x.bitopUninterp(st, op, a.S, b.S, bits, signed)
		default:
			unsupported("int binop %v", op)
		}
		// name composite results: keeps VCs small and gives E-matching a handle
		if _, lit := isIntLit(r); !lit && len(r) > 40 {
			c := x.d.fresh("t", sInt)
			st.assume(mkEq(c, r))
			if st.wf != nil {
				st.wf[c] = true
			}
			st.assume(inRange(c, bits, signed))
			r = c
		}
		return Value{K: KInt, T: resT, S: r}
	case KReal:
		var f string
		switch op {
		case token.ADD:
			f = "+"
		case token.SUB:
			f = "-"
		case token.MUL:
			f = "*"
		case token.QUO:
			f = "/"
		default:
			unsupported("float binop %v", op)
		}
		x.note("floating point treated as real arithmetic")
		return Value{K: KReal, T: resT, S: "(" + f + " " + a.S + " " + b.S + ")"}
	case KStr:
		if op == token.ADD {
			x.d.fun("strcat", []string{sStr, sStr}, sStr)
			r := "(strcat " + a.S + " " + b.S + ")"
			st.assume(mkEq("(strlen "+r+")", mkAdd("(strlen "+a.S+")", "(strlen "+b.S+")")))
			return Value{K: KStr, T: resT, S: r}
		}
	case KBool:
		switch op {
		case token.AND, token.LAND:
			return x.boolVal(resT, mkAnd(a.S, b.S))
		case token.OR, token.LOR:
			return x.boolVal(resT, mkOr(a.S, b.S))
		case token.XOR:
			return x.boolVal(resT, mkNot(mkEq(a.S, b.S)))
		}
	case KOpaque:
		// time.Duration style arithmetic on opaque Int sorts
		if x.tc.sortOf(a.T) == sInt {
			switch op {
			case token.ADD:
				return Value{K: KOpaque, T: resT, S: mkAdd(a.S, b.S)}
			case token.SUB:
				return Value{K: KOpaque, T: resT, S: mkSub(a.S, b.S)}
			}
		}
	}
	unsupported("binop %v on kinds %d,%d (%v)", op, a.K, b.K, a.T)
	return Value{}
}

func (x *Exec) bitand(st *State, a, b string, bits int, signed bool) string {
	// x & (2^k - 1) == x mod 2^k   (for non-negative or two's complement x alike)
	if bv, ok := isIntLit(b); ok {
		if k := log2Exact(new(big.Int).Add(bv, big.NewInt(1))); k >= 0 {
			return mkMod(a, pow2(k))
		}
		if bv.Sign() == 0 {
			return "0"
		}
	}
	if av, ok := isIntLit(a); ok {
		if k := log2Exact(new(big.Int).Add(av, big.NewInt(1))); k >= 0 {
			return mkMod(b, pow2(k))
		}
	}
	return x.bitopUninterp(st, token.AND, a, b, bits, signed)
}

func (x *Exec) bitopUninterp(st *State, op token.Token, a, b string, bits int, signed bool) string {
	name := map[token.Token]string{token.AND: "bitand", token.OR: "bitor", token.XOR: "bitxor", token.AND_NOT: "bitandnot"}[op]
	if av, ok := isIntLit(a); ok {
		if bv, ok := isIntLit(b); ok && av.Sign() >= 0 && bv.Sign() >= 0 {
			var z big.Int
			switch op {
			case token.AND:
				z.And(av, bv)
			case token.OR:
				z.Or(av, bv)
			case token.XOR:
				z.Xor(av, bv)
			case token.AND_NOT:
				z.AndNot(av, bv)
			}
			return intLit(&z)
		}
	}
	// exact: through fixed-width bit-vectors
	bvop := map[token.Token]string{token.AND: "bvand", token.OR: "bvor", token.XOR: "bvxor"}[op]
	ba := fmt.Sprintf("((_ int2bv %d) %s)", bits, a)
	bb := fmt.Sprintf("((_ int2bv %d) %s)", bits, b)
	var t string
	if op == token.AND_NOT {
		t = "(bvand " + ba + " (bvnot " + bb + "))"
	} else {
		t = "(" + bvop + " " + ba + " " + bb + ")"
	}
	r := x.d.fresh(name, sInt)
	nat := "(bv2nat " + t + ")"
	if signed {
		nat = wrapInt(nat, bits, true)
	}
	st.assume(mkEq(r, nat))
	st.assume(inRange(r, bits, signed))
	if op == token.AND && !signed {
		st.assume(mkAnd(mkCmp("<=", r, a), mkCmp("<=", r, b)))
	}
	if op == token.OR && !signed {
		st.assume(mkAnd(mkCmp(">=", r, a), mkCmp(">=", r, b)))
	}
	return r
}

func (x *Exec) shift(st *State, op token.Token, a, b Value, resT types.Type) Value {
	cnt := x.toInt(st, b)
	switch a.K {
	case KBV8:
		// count as BV8, saturating
		var cb string
		if b.K == KBV8 {
			cb = b.S
		} else {
			cb = "(ite (>= " + cnt + " 8) #x08 " + x.i2b(st, cnt) + ")"
			if v, ok := isIntLit(cnt); ok {
				if v.Cmp(big.NewInt(8)) >= 0 {
					cb = "#x08"
				} else {
					cb = bv8Lit(uint8(v.Int64()))
				}
			}
		}
		f := "bvshl"
		if op == token.SHR {
			f = "bvlshr"
		}
		return Value{K: KBV8, T: resT, S: "(" + f + " " + a.S + " " + cb + ")"}
	case KInt:
		bits, signed, _ := intInfo(resT)
		var p string
		if v, ok := isIntLit(cnt); ok {
			if v.Cmp(big.NewInt(int64(bits))) >= 0 {
				if op == token.SHL || !signed {
					return Value{K: KInt, T: resT, S: "0"}
				}
				return Value{K: KInt, T: resT, S: "(ite (< " + a.S + " 0) (- 1) 0)"}
			}
			p = intLit(pow2(int(v.Int64())))
		} else {
			x.needPow2()
			// counts >= width: pow2 defined up to 64; beyond that result 0 below
			p = "(pow2 " + cnt + ")"
		}
		var r string
		if op == token.SHL {
			r = wrapInt(mkMul(a.S, p), bits, signed)
		} else {
			r = "(div " + a.S + " " + p + ")"
			if _, ok := isIntLit(cnt); !ok {
				r = "(ite (> " + cnt + " 64) " + "(ite (< " + a.S + " 0) (- 1) 0) " + r + ")"
			}
		}
		if _, ok := isIntLit(cnt); !ok && op == token.SHL {
			r = "(ite (>= " + cnt + " " + intLit64(int64(bits)) + ") 0 " + r + ")"
		}
		return Value{K: KInt, T: resT, S: r}
	}
	unsupported("shift on kind %d", a.K)
	return Value{}
}

func (x *Exec) compare(st *State, op token.Token, a, b Value) string {
	ops := map[token.Token]string{token.LSS: "<", token.LEQ: "<=", token.GTR: ">", token.GEQ: ">="}
	switch a.K {
	case KInt, KOpaque:
		return mkCmp(ops[op], a.S, b.S)
	case KReal:
		return "(" + ops[op] + " " + a.S + " " + b.S + ")"
	case KBV8:
		if av, ok := isBV8Lit(a.S); ok {
			if bv, ok := isBV8Lit(b.S); ok {
				return mkCmp(ops[op], intLit64(int64(av)), intLit64(int64(bv)))
			}
		}
		f := map[token.Token]string{token.LSS: "bvult", token.LEQ: "bvule", token.GTR: "bvugt", token.GEQ: "bvuge"}[op]
		return "(" + f + " " + a.S + " " + b.S + ")"
	case KStr:
		x.d.fun("strlt", []string{sStr, sStr}, sBool)
		switch op {
		case token.LSS:
			return "(strlt " + a.S + " " + b.S + ")"
		case token.GTR:
			return "(strlt " + b.S + " " + a.S + ")"
		case token.LEQ:
			return mkNot("(strlt " + b.S + " " + a.S + ")")
		default:
			return mkNot("(strlt " + a.S + " " + b.S + ")")
		}
	}
	unsupported("compare on kind %d", a.K)
	return ""
}

func (x *Exec) valueEq(st *State, a, b Value) string {
	switch a.K {
	case KSlice:
		// only comparison with nil is legal Go
		if b.K == KSlice && b.Rid == "0" {
			return mkEq(a.Rid, "0")
		}
		if a.Rid == "0" {
			return mkEq(b.Rid, "0")
		}
		return mkAnd(mkEq(a.Rid, b.Rid), mkEq(a.Off, b.Off), mkEq(a.Len, b.Len))
	case KStruct, KTuple:
		var cs []string
		for i := range a.Fields {
			cs = append(cs, x.valueEq(st, a.Fields[i], b.Fields[i]))
		}
		return mkAnd(cs...)
	case KFunc:
		as, bs := a.S, b.S
		if a.Fn != nil {
			as = "1"
			if a.S == "" && b.S == "0" {
				return tFalse
			}
		}
		if b.Fn != nil {
			bs = "1"
		}
		if as == "" || bs == "" {
			unsupported("function comparison")
		}
		return mkEq(as, bs)
	case KPtr:
		if b.K == KRef || (b.K == KPtr && b.S == "0") {
			// address of a cell/field/element is never nil
			if b.K == KRef && b.S == "0" {
				return tFalse
			}
		}
		if b.K == KPtr && a.B == b.B {
			switch a.B {
			case BCell:
				if a.Cell == b.Cell && len(a.Path) == len(b.Path) {
					return tTrue
				}
				return tFalse
			}
		}
		unsupported("pointer comparison")
	case KRef:
		if b.K == KPtr {
			if a.S == "0" {
				return tFalse
			}
			unsupported("pointer comparison ref/ptr")
		}
		return mkEq(a.S, b.S)
	case KIface:
		bs := b.S
		if b.K != KIface {
			unsupported("iface compared with kind %d", b.K)
		}
		return mkEq(a.S, bs)
	}
	if a.S == "" || b.S == "" {
		unsupported("equality on kind %d/%d", a.K, b.K)
	}
	return mkEq(a.S, b.S)
}

func (x *Exec) convert(st *State, v Value, t types.Type, pos token.Pos) Value {
	nk := x.tc.kindOf(t)
	switch {
	case v.K == KInt && nk == KInt:
		bits, signed, _ := intInfo(t)
		sb, ss, _ := intInfo(v.T)
		if sb < bits && (signed || !ss) || (sb == bits && signed == ss) || (sb < bits && !ss) {
			return Value{K: KInt, T: t, S: v.S} // widening, value preserved
		}
		return Value{K: KInt, T: t, S: wrapInt(v.S, bits, signed)}
	case v.K == KBV8 && nk == KInt:
		return Value{K: KInt, T: t, S: x.b2iNamed(st, v.S)}
	case v.K == KInt && nk == KBV8:
		return Value{K: KBV8, T: t, S: x.i2b(st, v.S)}
	case v.K == KBV8 && nk == KBV8:
		return Value{K: KBV8, T: t, S: v.S}
	case v.K == KOpaque && nk == KInt && x.tc.sortOf(v.T) == sInt:
		bits, signed, _ := intInfo(t)
		return Value{K: KInt, T: t, S: wrapInt(v.S, bits, signed)}
	case (v.K == KInt || v.K == KBV8) && nk == KOpaque && x.tc.sortOf(t) == sInt:
		return Value{K: KOpaque, T: t, S: x.toInt(st, v)}
	case v.K == KOpaque && nk == KOpaque && x.tc.sortOf(t) == x.tc.sortOf(v.T):
		return Value{K: KOpaque, T: t, S: v.S}
	case (v.K == KInt || v.K == KBV8) && nk == KReal:
		return Value{K: KReal, T: t, S: "(to_real " + x.toInt(st, v) + ")"}
	case v.K == KReal && nk == KInt:
		x.note("float to int conversion treated as floor of a real")
		bits, signed, _ := intInfo(t)
		r := x.d.fresh("f2i", sInt)
		st.assume(mkEq(r, "(to_int "+v.S+")"))
		st.assume(inRange(r, bits, signed))
		return Value{K: KInt, T: t, S: r}
	case v.K == KReal && nk == KReal:
		return Value{K: KReal, T: t, S: v.S}
	case v.K == KSlice && nk == KStr:
		// string(bytes): function of the contents
		et := v.T.Underlying().(*types.Slice).Elem()
		x.d.fun("bytes2str", []string{"(Array Int " + x.tc.sortOf(et) + ")", sInt, sInt}, sStr)
		r := "(bytes2str " + x.regionTerm(st, v.Rid, et) + " " + v.Off + " " + v.Len + ")"
		st.assume(mkEq("(strlen "+r+")", v.Len))
		return Value{K: KStr, T: t, S: r}
	case v.K == KStr && nk == KSlice:
		et := t.Underlying().(*types.Slice).Elem()
		x.d.fun("str2bytes", []string{sStr}, "(Array Int "+x.tc.sortOf(et)+")")
		rid := x.allocRef(st)
		x.setRegion(st, rid, et, "(str2bytes "+v.S+")")
		n := "(strlen " + v.S + ")"
		x.assumeWF(st, v)
		return Value{K: KSlice, T: t, Rid: rid, Off: "0", Len: n, Cap: n}
	case v.K == KStr && nk == KStr:
		return Value{K: KStr, T: t, S: v.S}
	case (v.K == KInt || v.K == KBV8) && nk == KStr:
		x.d.fun("rune2str", []string{sInt}, sStr)
		return Value{K: KStr, T: t, S: "(rune2str " + x.toInt(st, v) + ")"}
	case nk == KRef && (v.K == KRef || v.K == KPtr):
		v.T = t
		return v
	case v.K == nk:
		v.T = t
		return v
	}
	x.note("conversion %v -> %v abstracted (fresh value)", v.T, t)
	return x.symbolic(st, t, "conv")
}

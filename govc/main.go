package main

import (
	"encoding/json"
	"flag"
	"fmt"
	"go/token"
	"go/types"
	"os"
	"path/filepath"
	"sort"
	"strings"
	"time"

	"golang.org/x/tools/go/packages"
	"golang.org/x/tools/go/ssa"
	"golang.org/x/tools/go/ssa/ssautil"
)

type Program struct {
	fset   *token.FileSet
	pkgs   []*packages.Package
	byPath map[string]*packages.Package
	ssa    *ssa.Program
	spkgs  map[string]*ssa.Package
}

func loadProgram(repo string, patterns []string, overlay map[string][]byte) (*Program, error) {
	cfg := &packages.Config{
		Mode:       packages.LoadAllSyntax,
		Dir:        repo,
		BuildFlags: []string{"-tags=verif,leveldb"},
		Overlay:    overlay,
		Env:        append(os.Environ(), "GOFLAGS=-mod=mod", "GOPROXY=off", "GOSUMDB=off", "GOTOOLCHAIN=local"),
	}
	pkgs, err := packages.Load(cfg, patterns...)
	if err != nil {
		return nil, err
	}
	p := &Program{pkgs: pkgs, byPath: map[string]*packages.Package{}, spkgs: map[string]*ssa.Package{}}
	nerr := 0
	packages.Visit(pkgs, nil, func(pk *packages.Package) {
		p.byPath[pk.PkgPath] = pk
		for _, e := range pk.Errors {
			if nerr < 10 {
				fmt.Fprintf(os.Stderr, "load error: %v\n", e)
			}
			nerr++
		}
	})
	if nerr > 0 {
		return nil, fmt.Errorf("%d package load errors", nerr)
	}
	if len(pkgs) > 0 {
		p.fset = pkgs[0].Fset
	}
	prog, _ := ssautil.AllPackages(pkgs, ssa.NaiveForm|ssa.GlobalDebug|ssa.InstantiateGenerics)
	prog.Build()
	p.ssa = prog
	for _, sp := range prog.AllPackages() {
		p.spkgs[sp.Pkg.Path()] = sp
	}
	return p, nil
}

// loadContracts reads verif_contracts*.go files of the loaded root packages.
func loadContracts(p *Program, db *ContractDB, assumedDir string) error {
	if err := db.loadAssumedDir(assumedDir); err != nil {
		return err
	}
	seen := map[string]bool{}
	for _, pk := range p.byPath {
		for _, f := range pk.GoFiles {
			if !strings.HasPrefix(filepath.Base(f), "verif_contracts") || seen[f] {
				continue
			}
			seen[f] = true
			b, err := os.ReadFile(f)
			if err != nil {
				return err
			}
			if err := db.parseFile(pk.PkgPath, f, string(b)); err != nil {
				return err
			}
		}
	}
	return nil
}

// findFunc resolves a contract key to an SSA function.
func (p *Program) findFunc(key string) *ssa.Function {
	// method: (*pkg.T).M or (pkg.T).M ; function: pkg.F ; closure: pkg.F$1
	if strings.HasPrefix(key, "(") {
		i := strings.Index(key, ")")
		recv := key[1:i]
		meth := key[i+2:]
		ptr := strings.HasPrefix(recv, "*")
		recv = strings.TrimPrefix(recv, "*")
		j := strings.LastIndex(recv, ".")
		pkgPath, tname := recv[:j], recv[j+1:]
		sp := p.spkgs[pkgPath]
		if sp == nil {
			return nil
		}
		t := sp.Type(tname)
		if t == nil {
			return nil
		}
		base := meth
		rest := ""
		if k := strings.Index(meth, "$"); k >= 0 {
			base, rest = meth[:k], meth[k:]
		}
		var fn *ssa.Function
		if ptr {
			fn = p.ssa.LookupMethod(typesPointer(t.Type()), sp.Pkg, base)
		} else {
			fn = p.ssa.LookupMethod(t.Type(), sp.Pkg, base)
		}
		return descendAnon(fn, rest)
	}
	j := strings.LastIndex(key, ".")
	if j < 0 {
		return nil
	}
	pkgPath, name := key[:j], key[j+1:]
	sp := p.spkgs[pkgPath]
	if sp == nil {
		return nil
	}
	base, rest := name, ""
	if k := strings.Index(name, "$"); k >= 0 {
		base, rest = name[:k], name[k:]
	}
	return descendAnon(sp.Func(base), rest)
}

func descendAnon(fn *ssa.Function, rest string) *ssa.Function {
	for fn != nil && rest != "" {
		rest = strings.TrimPrefix(rest, "$")
		n := 0
		k := 0
		for k < len(rest) && rest[k] >= '0' && rest[k] <= '9' {
			n = n*10 + int(rest[k]-'0')
			k++
		}
		rest = rest[k:]
		if n < 1 || n > len(fn.AnonFuncs) {
			return nil
		}
		fn = fn.AnonFuncs[n-1]
	}
	return fn
}

type RunResult struct {
	Prop       string        `json:"prop"`
	Tier       string        `json:"tier"`
	Units      []*UnitResult `json:"units"`
	LoadS      float64       `json:"load_s"`
	GenS       float64       `json:"gen_s"`
	SolveS     float64       `json:"solve_s"`
	SolverSecs float64       `json:"solver_cpu_s"`
	Errors     []string      `json:"errors,omitempty"`
	BySolver   map[string]int `json:"by_solver"`
}

func main() {
	if len(os.Args) < 2 {
		fmt.Fprintln(os.Stderr, "usage: govc verify|list ...")
		os.Exit(2)
	}
	switch os.Args[1] {
	case "verify":
		os.Exit(cmdVerify(os.Args[2:]))
	case "list":
		os.Exit(cmdList(os.Args[2:]))
	default:
		fmt.Fprintln(os.Stderr, "unknown command")
		os.Exit(2)
	}
}

func cmdList(args []string) int {
	fs := flag.NewFlagSet("list", flag.ExitOnError)
	repo := fs.String("repo", "/repo", "repository")
	pk := fs.String("pkgs", "", "comma separated package patterns")
	dump := fs.Bool("ssa", false, "dump SSA")
	fs.Parse(args)
	p, err := loadProgram(*repo, strings.Split(*pk, ","), nil)
	if err != nil {
		fmt.Fprintln(os.Stderr, err)
		return 2
	}
	for _, key := range fs.Args() {
		fn := p.findFunc(key)
		if fn == nil {
			fmt.Printf("%s: not found\n", key)
			continue
		}
		listLoops(p, fn, "", *dump)
	}
	return 0
}

func listLoops(p *Program, fn *ssa.Function, indent string, dump bool) {
	li := loopsOf(fn)
	fmt.Printf("%s%s  (%s)\n", indent, fn.String(), p.fset.Position(fn.Pos()))
	var hs []*ssa.BasicBlock
	for h := range li.headers {
		hs = append(hs, h)
	}
	sort.Slice(hs, func(i, j int) bool { return li.headers[hs[i]] < li.headers[hs[j]] })
	for _, h := range hs {
		fmt.Printf("%s  loop %d: block %d (%s) at %s\n", indent, li.headers[h], h.Index, h.Comment, p.fset.Position(firstPos(h)))
	}
	if dump {
		fn.WriteTo(os.Stdout)
	}
	for _, a := range fn.AnonFuncs {
		listLoops(p, a, indent+"  ", dump)
	}
}

func cmdVerify(args []string) int {
	fs := flag.NewFlagSet("verify", flag.ExitOnError)
	repo := fs.String("repo", "/repo", "repository")
	pk := fs.String("pkgs", "", "comma separated package patterns")
	prop := fs.String("prop", "", "property id (selects units tagged with it)")
	unitsF := fs.String("units", "", "comma separated unit keys (overrides -prop)")
	tier := fs.String("tier", "quick", "quick|thorough")
	out := fs.String("out", "/verif/out/tmp", "output directory for VCs")
	jsonOut := fs.String("json", "", "write result JSON here")
	timeout := fs.Int("timeout", 10, "per-VC solver timeout (s)")
	coverTimeout := fs.Int("cover-timeout", 0, "solver timeout for cover (vacuity) queries (s); 0 = same as -timeout")
	workers := fs.Int("workers", 6, "parallel VCs")
	assumed := fs.String("assumed", "/verif/contracts/assumed", "assumed contracts dir")
	overlayF := fs.String("overlay", "", "JSON file {path: replacement path} applied to the load (self-test mutants)")
	verbose := fs.Bool("v", false, "verbose")
	lemmasOnly := fs.Bool("lemmas-only", false, "check only the lemmas of the property")
	bounded := fs.Int("bounded", 0, "bounded concretisation: ignore loop specs, unroll every loop up to N iterations (failing-input search only)")
	fs.Parse(args)

	var overlay map[string][]byte
	if *overlayF != "" {
		b, err := os.ReadFile(*overlayF)
		if err != nil {
			fmt.Fprintln(os.Stderr, err)
			return 2
		}
		m := map[string]string{}
		if err := json.Unmarshal(b, &m); err != nil {
			fmt.Fprintln(os.Stderr, err)
			return 2
		}
		overlay = map[string][]byte{}
		for k, v := range m {
			c, err := os.ReadFile(v)
			if err != nil {
				fmt.Fprintln(os.Stderr, err)
				return 2
			}
			overlay[k] = c
		}
	}
	t0 := time.Now()
	p, err := loadProgram(*repo, strings.Split(*pk, ","), overlay)
	if err != nil {
		fmt.Fprintln(os.Stderr, "ERROR load:", err)
		return 2
	}
	db := newContractDB()
	if err := loadContracts(p, db, *assumed); err != nil {
		fmt.Fprintln(os.Stderr, "ERROR contracts:", err)
		return 2
	}
	rr := &RunResult{Prop: *prop, Tier: *tier, LoadS: time.Since(t0).Seconds(), BySolver: map[string]int{}}

	// select units
	safetyOnlyUnits := map[string]bool{}
	var keys []string
	if *unitsF != "" {
		keys = strings.Split(*unitsF, ",")
	} else {
		for k, c := range db.Funcs {
			for _, pr := range c.Props {
				// "Cxx:safety": the unit belongs to property Cxx with its run-time safety
				// obligations only (its functional obligations are another property's)
				if (pr == *prop || pr == *prop+":safety") && !c.Trusted && !c.NoVerify {
					keys = append(keys, k)
					if pr == *prop+":safety" {
						safetyOnlyUnits[k] = true
					}
				}
			}
		}
	}
	sort.Strings(keys)
	if *lemmasOnly {
		keys = nil
	}
	if len(keys) == 0 && !*lemmasOnly {
		fmt.Fprintln(os.Stderr, "ERROR: no units selected")
		return 2
	}
	os.RemoveAll(*out)
	exit := 0
	type pending struct {
		x         *Exec
		ur        *UnitResult
		files     []string
		batchFile map[int]string
	}
	var pend []pending
	t1 := time.Now()
	// contracts with bounding clauses get a second, bounded stand-in run
	if *bounded == 0 {
		var more []string
		for _, key := range keys {
			if c := db.Funcs[key]; c != nil && (len(c.Bounded) > 0 || c.BoundedOnly) {
				more = append(more, key+"#bounded")
			}
		}
		keys = append(keys, more...)
	}
	for _, key := range keys {
		boundedRun := strings.HasSuffix(key, "#bounded")
		unitName := key
		key = strings.TrimSuffix(key, "#bounded")
		c := db.Funcs[key]
		if c != nil && c.BoundedOnly && !boundedRun && *bounded == 0 {
			continue
		}
		ur := &UnitResult{Unit: unitName, Func: key, Bounded: boundedRun}
		rr.Units = append(rr.Units, ur)
		if c == nil {
			ur.Error = "contract-stale: no contract for " + key
			exit = 2
			continue
		}
		ur.Props = c.Props
		fn := p.findFunc(key)
		if fn == nil {
			ur.Error = "contract-stale: function " + key + " not found in the loaded packages"
			exit = 2
			continue
		}
		x := newExec(p, db, shortUnit(unitName))
		x.safetyOnly = safetyOnlyUnits[key]
		if fn.Pkg != nil {
			x.useOpaque(fn.Pkg.Pkg.Path(), c.File)
		}
		if boundedRun {
			x.boundedRun = true
			x.boundN = c.BoundN
			if x.boundN == 0 {
				x.boundN = 4
			}
			x.maxPaths = 20000
		}
		x.pruner = newPruner()
		if *bounded > 0 {
			x.bounded = *bounded
			x.maxPaths = 30000
		}
		err := x.verifyFunc(fn, c)
		x.pruner.close()
		ur.Pruned = x.pruner.pruned
		if err != nil {
			ur.Error = err.Error()
			exit = 2
			continue
		}
		ur.FrameChecked = c.HasAssign
		dir := filepath.Join(*out, sanitize(shortUnit(unitName)))
		var files []string
		func() {
			defer func() {
				if r := recover(); r != nil {
					if se, ok := r.(*SpecError); ok {
						ur.Error = "contract-stale: " + se.Msg
						exit = 2
						return
					}
					panic(r)
				}
			}()
			files, err = x.writeVCs(dir, fn.Pkg.Pkg)
			if err != nil {
				ur.Error = err.Error()
				exit = 2
			}
		}()
		if ur.Error != "" {
			continue
		}
		ur.Paths = x.pathN
		ur.Instrs = x.stats.instrs
		ur.Notes = sortedKeys(x.notes)
		ur.Unmodelled = sortedKeys(x.unmod)
		ur.Assumed = sortedKeys(x.assumed)
		ur.Used = sortedKeys(x.usedContracts)
		ur.Inlined = sortedKeys(x.inlined)
		ur.Probes = x.probes
		ur.PureCalls = sortedKeys(x.pureCalls)
		pend = append(pend, pending{x, ur, files, map[int]string{}})
	}
	// lemmas of the property: one pseudo-unit each
	if *unitsF == "" && *bounded == 0 {
		var lms []*Lemma
		for _, pc := range db.Pkgs {
			for _, lm := range pc.LemmaList {
				if lm.Prop == *prop {
					lms = append(lms, lm)
				}
			}
		}
		sort.Slice(lms, func(i, j int) bool { return lms[i].Ord < lms[j].Ord })
		for _, lm := range lms {
			sp := p.spkgs[lm.Pkg]
			name := "lemma " + lm.Label
			ur := &UnitResult{Unit: name, Func: name, Props: []string{lm.Prop}}
			rr.Units = append(rr.Units, ur)
			if sp == nil {
				ur.Error = "contract-stale: package " + lm.Pkg + " of lemma " + lm.Label + " is not loaded"
				exit = 2
				continue
			}
			x := newExec(p, db, name)
			x.useOpaque(lm.Pkg, lm.File)
			x.pruner = newPruner()
			var files []string
			func() {
				defer func() {
					if r := recover(); r != nil {
						if se, ok := r.(*SpecError); ok {
							ur.Error = "contract-stale: lemma " + lm.Label + ": " + se.Msg
							exit = 2
							return
						}
						panic(r)
					}
				}()
				x.proveLemma(lm, sp.Pkg)
				dir := filepath.Join(*out, sanitize(name))
				var err error
				files, err = x.writeVCs(dir, sp.Pkg)
				if err != nil {
					ur.Error = err.Error()
					exit = 2
				}
			}()
			x.pruner.close()
			if ur.Error != "" {
				continue
			}
			pend = append(pend, pending{x, ur, files, map[int]string{}})
		}
	}
	rr.GenS = time.Since(t1).Seconds()
	t2 := time.Now()
	var allRes []solveResult
	// first the combined safety queries (one per program point instead of one per path)
	preRes := make([]map[int]solveResult, len(pend))
	if os.Getenv("GOVC_NOBATCH") == "" && *bounded == 0 {
		var bfiles []string
		type bref struct{ unit, batch int }
		var brefs []bref
		batches := make([][]vcBatch, len(pend))
		for k, pd := range pend {
			preRes[k] = map[int]solveResult{}
			fnp := p.findFunc(pd.ur.Func)
			if fnp == nil || fnp.Pkg == nil {
				continue
			}
			dir := filepath.Join(*out, sanitize(shortUnit(pd.ur.Unit)))
			bs, err := pd.x.writeBatches(dir, pd.files, fnp.Pkg.Pkg)
			if err != nil {
				continue
			}
			batches[k] = bs
			for j, b := range bs {
				bfiles = append(bfiles, b.file)
				brefs = append(brefs, bref{k, j})
			}
		}
		if len(bfiles) > 0 {
			bt := *timeout
			if bt > 10 {
				bt = 10
			}
			bres := solveAll(bfiles, nil, bt, bt, *workers)
			for i, r := range bres {
				if r.status != "unsat" {
					continue
				}
				ref := brefs[i]
				b := batches[ref.unit][ref.batch]
				for _, m := range b.members {
					preRes[ref.unit][m] = solveResult{status: "unsat", solver: r.solver + "/batch", seconds: r.seconds / float64(len(b.members))}
					pend[ref.unit].batchFile[m] = b.file
					pend[ref.unit].files[m] = ""
				}
			}
		}
	}
	// one pool of solver jobs over the obligations of all units
	var allFiles []string
	var allObls []*Obligation
	offs := make([]int, len(pend))
	for k, pd := range pend {
		offs[k] = len(allFiles)
		allFiles = append(allFiles, pd.files...)
		allObls = append(allObls, pd.x.obls...)
	}
	{
		ct := *coverTimeout
		if ct <= 0 {
			ct = *timeout
		}
		// vacuity queries: per unit and label one at a time, until one is satisfiable (that
		// settles the label); the others are not asked ("cover-skipped").  All proof obligations
		// and the first query of every label go into the first round.
		type lk struct {
			unit  string
			label string
		}
		groups := map[lk][]int{}
		var order []lk
		for i, o := range allObls {
			if o.Cover && allFiles[i] != "" {
				k := lk{o.Unit, o.Label}
				if _, ok := groups[k]; !ok {
					order = append(order, k)
				}
				groups[k] = append(groups[k], i)
			}
		}
		round := append([]string(nil), allFiles...)
		for _, k := range order {
			for _, i := range groups[k][1:] {
				round[i] = ""
			}
		}
		allRes = solveAll(round, allObls, *timeout, ct, *workers)
		next := map[lk]int{}
		for _, k := range order {
			next[k] = 1
			for _, i := range groups[k][1:] {
				allRes[i] = solveResult{status: "skipped"}
			}
		}
		for rnd := 0; rnd < 12; rnd++ {
			more := make([]string, len(allFiles))
			any := false
			idx := map[lk]int{}
			for _, k := range order {
				g := groups[k]
				settled := false
				for _, i := range g[:next[k]] {
					// satisfiable: the label is reachable; inconclusive: not an alarm either,
					// and further paths would most likely be inconclusive too
					if allRes[i].status != "unsat" {
						settled = true
					}
				}
				if settled || next[k] >= len(g) {
					continue
				}
				i := g[next[k]]
				more[i] = allFiles[i]
				idx[k] = i
				next[k]++
				any = true
			}
			if !any {
				break
			}
			r2 := solveAll(more, allObls, *timeout, ct, *workers)
			for _, i := range idx {
				allRes[i] = r2[i]
			}
		}
	}
	for k, pd := range pend {
		res := allRes[offs[k] : offs[k]+len(pd.files)]
		for i, o := range pd.x.obls {
			r := res[i]
			if pr, ok := preRes[k][i]; ok {
				r = pr
				pd.files[i] = pd.batchFile[i]
			}
			or := &OblResult{Name: o.Name, Kind: o.Kind, Label: o.Label, Pos: o.Pos, Solver: r.solver, Seconds: r.seconds, File: pd.files[i], Cover: o.Cover}
			if pd.files[i] != "" {
				if fi, err := os.Stat(pd.files[i]); err == nil {
					or.Bytes = int(fi.Size())
				}
			}
			rr.SolverSecs += r.seconds
			switch {
			case r.status == "trivial":
				or.Status = "trivial"
				rr.BySolver["syntactic"]++
			case o.Cover:
				switch r.status {
				case "sat":
					or.Status = "cover-ok"
				case "unsat":
					or.Status = "cover-fail"
				case "skipped":
					or.Status = "cover-skipped"
				default:
					or.Status = "cover-unknown"
				}
			case r.status == "unsat":
				or.Status = "discharged"
				rr.BySolver[r.solver]++
			case r.status == "sat":
				or.Status = "refuted"
				or.Model = r.model
				if exit == 0 {
					exit = 1
				}
			default:
				or.Status = "undischarged"
				or.Output = r.output
				or.Model = r.model // candidate only
				if exit == 0 {
					exit = 1
				}
			}
			pd.ur.Obligations = append(pd.ur.Obligations, or)
		}
	}
	rr.SolveS = time.Since(t2).Seconds()
	// report
	for _, ur := range rr.Units {
		if ur.Error != "" {
			fmt.Printf("ERROR %s: %s\n", ur.Unit, ur.Error)
			continue
		}
		n, d, bad := 0, 0, 0
		// vacuity: per cover label at least one satisfiable instance
		coverOK := map[string]bool{}
		coverAny := map[string]bool{}
		for _, o := range ur.Obligations {
			if o.Cover {
				coverAny[o.Label] = true
				if o.Status != "cover-fail" {
					coverOK[o.Label] = true
				}
			}
		}
		if !coverAny["return"] {
			// a unit without any return path proves nothing - unless it is declared to
			// run forever (`note noreturn`: event loops), whose obligations are the call-site
			// and loop obligations inside the loop
			noret := false
			if c := db.Funcs[ur.Func]; c != nil {
				for _, n := range c.Notes {
					noret = noret || n == "noreturn"
				}
			}
			// (a lemma has no paths: its vacuity guard is that base case and step are both
			// non-trivial statements about spec functions, checked by the solvers like any goal)
			if !noret && !strings.HasPrefix(ur.Unit, "lemma ") {
				coverAny["return"] = true
			}
		}
		for l := range coverAny {
			if !coverOK[l] {
				fmt.Printf("  VACUOUS %s: no satisfiable path for cover %q\n", ur.Unit, l)
				ur.Vacuous = append(ur.Vacuous, l)
				exit = 2
			}
		}
		for _, o := range ur.Obligations {
			if o.Cover {
				continue
			}
			n++
			switch o.Status {
			case "discharged", "trivial":
				d++
			default:
				bad++
				fmt.Printf("  FAIL %s [%s] %s %s (%.1fs)\n", o.Name, o.Status, o.Pos, o.File, o.Seconds)
			}
			if *verbose {
				fmt.Printf("    %s %s %s %.2fs\n", o.Name, o.Status, o.Solver, o.Seconds)
			}
		}
		fmt.Printf("UNIT %s: %d/%d discharged, %d failed, %d paths\n", ur.Unit, d, n, bad, ur.Paths)
	}
	fmt.Printf("load %.1fs gen %.1fs solve %.1fs\n", rr.LoadS, rr.GenS, rr.SolveS)
	if *jsonOut != "" {
		b, _ := json.MarshalIndent(rr, "", " ")
		os.MkdirAll(filepath.Dir(*jsonOut), 0o755)
		os.WriteFile(*jsonOut, b, 0o644)
	}
	return exit
}

func shortUnit(key string) string {
	s := strings.ReplaceAll(key, "github.com/gauss-project/aurorafs/pkg/", "")
	return s
}

func typesPointer(t types.Type) types.Type { return types.NewPointer(t) }

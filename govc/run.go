package main

// Path-by-path symbolic execution of one SSA function activation.

import (
	"fmt"
	"go/constant"
	"go/token"
	"go/types"
	"math/big"
	"strings"

	"golang.org/x/tools/go/ssa"
)

type deferred struct {
	call  *ssa.CallCommon
	fnv   Value
	args  []Value
	pos   token.Pos
	instr *ssa.Defer
}

type activeLoop struct {
	header *ssa.BasicBlock
	entry  *State // snapshot at loop entry (before havoc), for pre()
	decVal string
	spec   *LoopSpec
	iters  int
	framed map[string]*footprint
}

type Frame struct {
	fn       *ssa.Function
	regs     map[ssa.Value]Value
	vars     map[string]Value // named locals -> pointer values
	defers   []deferred
	params   []Value
	depth    int
	contract *FuncContract // contract providing loop specs (own or caller's)
	loopPfx  string        // prefix for loop keys when inlined
	active   map[*ssa.BasicBlock]*activeLoop
	lastIter string // iterator id of most recent Range instruction
	lastIterK types.Type
	parent   *Frame
	callPos  token.Pos
}

func (f *Frame) clone() *Frame {
	n := *f
	n.regs = make(map[ssa.Value]Value, len(f.regs))
	for k, v := range f.regs {
		n.regs[k] = v
	}
	n.vars = make(map[string]Value, len(f.vars))
	for k, v := range f.vars {
		n.vars[k] = v
	}
	n.defers = append([]deferred(nil), f.defers...)
	n.active = make(map[*ssa.BasicBlock]*activeLoop, len(f.active))
	for k, v := range f.active {
		c := *v
		n.active[k] = &c
	}
	return &n
}

type Outcome struct {
	st       *State
	results  []Value
	panicked bool
	fr       *Frame // frame at the return (witness candidates for existential posts)
}

type workItem struct {
	st    *State
	fr    *Frame
	block *ssa.BasicBlock
	idx   int
	prev  *ssa.BasicBlock
}

// loopInfo caches natural loops per function.
type loopInfo struct {
	headers map[*ssa.BasicBlock]int                      // header -> ordinal (1-based, block order)
	body    map[*ssa.BasicBlock]map[*ssa.BasicBlock]bool // header -> blocks
}

var loopCache = map[*ssa.Function]*loopInfo{}

func loopsOf(fn *ssa.Function) *loopInfo {
	if li, ok := loopCache[fn]; ok {
		return li
	}
	li := &loopInfo{headers: map[*ssa.BasicBlock]int{}, body: map[*ssa.BasicBlock]map[*ssa.BasicBlock]bool{}}
	for _, b := range fn.Blocks {
		for _, s := range b.Succs {
			if s.Dominates(b) { // back edge b -> s
				if li.body[s] == nil {
					li.body[s] = map[*ssa.BasicBlock]bool{s: true}
				}
				// natural loop: all blocks that reach b without passing s
				stack := []*ssa.BasicBlock{b}
				for len(stack) > 0 {
					n := stack[len(stack)-1]
					stack = stack[:len(stack)-1]
					if li.body[s][n] {
						continue
					}
					li.body[s][n] = true
					stack = append(stack, n.Preds...)
				}
			}
		}
	}
	n := 0
	for _, b := range fn.Blocks {
		if li.body[b] != nil {
			n++
			li.headers[b] = n
		}
	}
	loopCache[fn] = li
	return li
}

func (x *Exec) evalConst(st *State, c *ssa.Const) Value {
	t := c.Type()
	if c.Value == nil {
		return x.tc.zero(x, t)
	}
	k := x.tc.kindOf(t)
	switch c.Value.Kind() {
	case constant.Bool:
		if constant.BoolVal(c.Value) {
			return Value{K: KBool, T: t, S: tTrue}
		}
		return Value{K: KBool, T: t, S: tFalse}
	case constant.Int:
		bi, _ := new(big.Int).SetString(c.Value.ExactString(), 10)
		if k == KBV8 {
			return Value{K: KBV8, T: t, S: bv8Lit(uint8(bi.Uint64()))}
		}
		if k == KReal {
			return Value{K: KReal, T: t, S: realLit(bi.String())}
		}
		if k == KOpaque {
			return Value{K: KOpaque, T: t, S: intLit(bi)}
		}
		return Value{K: KInt, T: t, S: intLit(bi)}
	case constant.String:
		return Value{K: KStr, T: t, S: x.strLitLen(constant.StringVal(c.Value))}
	case constant.Float:
		f, _ := constant.Float64Val(c.Value)
		if k == KReal {
			return Value{K: KReal, T: t, S: realLit(fmt.Sprintf("%f", f))}
		}
	}
	unsupported("constant %v", c)
	return Value{}
}

func realLit(s string) string {
	if strings.HasPrefix(s, "-") {
		return "(- " + realLit(s[1:]) + ")"
	}
	if !strings.Contains(s, ".") {
		s += ".0"
	}
	return s
}

func (x *Exec) strLitLen(s string) string {
	c := x.strLit(s)
	x.strLens[c] = len(s)
	return c
}

func (x *Exec) operand(st *State, fr *Frame, v ssa.Value) Value {
	switch v := v.(type) {
	case *ssa.Const:
		return x.evalConst(st, v)
	case *ssa.Global:
		return Value{K: KPtr, T: v.Type(), B: BCell, Cell: x.globalCell(v)}
	case *ssa.Function:
		return Value{K: KFunc, T: v.Type(), Fn: v}
	case *ssa.Builtin:
		return Value{K: KFunc, T: v.Type(), S: "builtin:" + v.Name()}
	}
	if r, ok := fr.regs[v]; ok {
		return r
	}
	unsupported("operand %s (%T) undefined in %s", v.Name(), v, fr.fn.Name())
	return Value{}
}

// runFunc symbolically executes fn from its entry with the given arguments.
func (x *Exec) runFunc(st *State, fn *ssa.Function, args []Value, binds []Value, parent *Frame, contract *FuncContract, loopPfx string, callPos token.Pos) []Outcome {
	if len(fn.Blocks) == 0 {
		unsupported("function %s has no body", fn.String())
	}
	depth := 0
	if parent != nil {
		depth = parent.depth + 1
	}
	if depth > 24 {
		unsupported("inline depth exceeded at %s", fn.String())
	}
	fr := &Frame{fn: fn, regs: map[ssa.Value]Value{}, vars: map[string]Value{}, depth: depth,
		contract: contract, loopPfx: loopPfx, active: map[*ssa.BasicBlock]*activeLoop{}, parent: parent, callPos: callPos}
	if len(args) != len(fn.Params) {
		unsupported("arity mismatch calling %s: %d args, %d params", fn.String(), len(args), len(fn.Params))
	}
	for i, p := range fn.Params {
		fr.regs[p] = args[i]
	}
	fr.params = args
	for i, fv := range fn.FreeVars {
		if i < len(binds) {
			fr.regs[fv] = binds[i]
			if pv := binds[i]; pv.K == KPtr || pv.K == KRef {
				fr.vars[fv.Name()] = pv
			}
		}
	}
	var outs []Outcome
	work := []workItem{{st: st, fr: fr, block: fn.Blocks[0]}}
	for len(work) > 0 {
		it := work[len(work)-1]
		work = work[:len(work)-1]
		x.pathN++
		if x.pathN > x.maxPaths {
			unsupported("path budget exceeded (%d) in %s", x.maxPaths, x.unit)
		}
		more, out := x.runBlock(it)
		work = append(work, more...)
		outs = append(outs, out...)
		if len(work) == 0 && depth == 0 && len(x.cutArr) > 0 {
			// all paths before the cut points are done: merge the earliest cut
			var first *ssa.Call
			for c := range x.cutArr {
				if first == nil || c.Pos() < first.Pos() {
					first = c
				}
			}
			arr := x.cutArr[first]
			delete(x.cutArr, first)
			work = append(work, x.mergeCut(first, x.cutSpec[first], arr))
		}
	}
	return outs
}

// runBlock executes instructions from it.idx until a control transfer.
func (x *Exec) runBlock(it workItem) ([]workItem, []Outcome) {
	st, fr, b := it.st, it.fr, it.block
	if st.infeasible() {
		return nil, nil
	}
	if it.idx == 0 {
		// loop header handling
		li := loopsOf(fr.fn)
		if ord, isHdr := li.headers[b]; isHdr {
			cont := x.atLoopHeader(st, fr, b, ord, it.prev, li)
			if !cont {
				return nil, nil
			}
		}
	}
	for i := it.idx; i < len(b.Instrs); i++ {
		ins := b.Instrs[i]
		x.stats.instrs++
		if p := ins.Pos(); p.IsValid() {
			x.curPos = p
		}
		switch ins := ins.(type) {
		case *ssa.DebugRef:
			continue
		case *ssa.If:
			c := x.operand(st, fr, ins.Cond)
			if x.probing {
				st2 := st.clone()
				fr2 := fr.clone()
				return []workItem{{st2, fr2, b.Succs[1], 0, b}, {st, fr, b.Succs[0], 0, b}}, nil
			}
			switch c.S {
			case tTrue:
				return []workItem{{st, fr, b.Succs[0], 0, b}}, nil
			case tFalse:
				return []workItem{{st, fr, b.Succs[1], 0, b}}, nil
			}
			x.stats.forks++
			st2 := st.clone()
			fr2 := fr.clone()
			st.assume(c.S)
			st2.assume(mkNot(c.S))
			var next []workItem
			if x.pruner.feasible(x, st2.pcList()) {
				next = append(next, workItem{st2, fr2, b.Succs[1], 0, b})
			}
			if x.pruner.feasible(x, st.pcList()) {
				next = append(next, workItem{st, fr, b.Succs[0], 0, b})
			}
			return next, nil
		case *ssa.Jump:
			return []workItem{{st, fr, b.Succs[0], 0, b}}, nil
		case *ssa.Return:
			var res []Value
			for _, r := range ins.Results {
				res = append(res, x.operand(st, fr, r))
			}
			return nil, []Outcome{{st: st, results: res, fr: fr}}
		case *ssa.Panic:
			return nil, []Outcome{{st: st, panicked: true}}
		case *ssa.Phi:
			found := false
			for pi, pred := range b.Preds {
				if pred == it.prev {
					fr.regs[ins] = x.operand(st, fr, ins.Edges[pi])
					found = true
					break
				}
			}
			if !found {
				unsupported("phi without matching predecessor")
			}
		case *ssa.Call:
			if cs := x.cutFor(fr, ins); cs != nil {
				// park the path at the cut point; runFunc merges the arrivals
				x.cutArr[ins] = append(x.cutArr[ins], workItem{st, fr, b, i, it.prev})
				x.cutSpec[ins] = cs
				return nil, nil
			}
			outs := x.doCall(st, fr, ins.Common(), ins.Pos(), ins)
			var more []workItem
			var res []Outcome
			for k, o := range outs {
				if o.panicked {
					res = append(res, o)
					continue
				}
				f2 := fr
				if k < len(outs)-1 {
					f2 = fr.clone()
				}
				f2.regs[ins] = tupleOrSingle(ins.Type(), o.results)
				more = append(more, workItem{o.st, f2, b, i + 1, it.prev})
			}
			return more, res
		case *ssa.RunDefers:
			states := x.runDefers(st, fr)
			var more []workItem
			for k, s2 := range states {
				f2 := fr
				if k < len(states)-1 {
					f2 = fr.clone()
				}
				f2.defers = nil
				more = append(more, workItem{s2, f2, b, i + 1, it.prev})
			}
			return more, nil
		default:
			x.step(st, fr, ins)
			if st.infeasible() {
				return nil, nil
			}
		}
	}
	unsupported("block %d of %s falls through", b.Index, fr.fn.Name())
	return nil, nil
}

func tupleOrSingle(t types.Type, res []Value) Value {
	if tt, ok := t.(*types.Tuple); ok {
		if tt.Len() == 0 {
			return Value{K: KTuple, T: t}
		}
		return Value{K: KTuple, T: t, Fields: res}
	}
	if len(res) == 1 {
		return res[0]
	}
	return Value{K: KTuple, T: t, Fields: res}
}

func (x *Exec) runDefers(st *State, fr *Frame) []*State {
	states := []*State{st}
	for i := len(fr.defers) - 1; i >= 0; i-- {
		d := fr.defers[i]
		var next []*State
		for _, s := range states {
			outs := x.callValue(s, fr, d.fnv, d.args, d.call, d.pos, nil)
			for _, o := range outs {
				if !o.panicked {
					next = append(next, o.st)
				}
			}
		}
		states = next
	}
	return states
}

// ---------------------------------------------------------------------------
// straight-line instructions

func (x *Exec) step(st *State, fr *Frame, ins ssa.Instruction) {
	switch ins := ins.(type) {
	case *ssa.Alloc:
		et := pointee(ins.Type())
		if ins.Heap && x.isStructLike(et) {
			ref := x.allocRef(st)
			x.storeObject(st, ref, et, x.tc.zero(x, et))
			v := Value{K: KRef, T: ins.Type(), S: ref}
			fr.regs[ins] = v
			if ins.Comment != "" {
				fr.vars[ins.Comment] = v
			}
			return
		}
		if _, isOpaque := x.tc.opaqueSort(et); isOpaque && ins.Heap {
			// new(T) for an opaque T (e.g. new(big.Int)): object in the opaque heap
			ref := x.allocRef(st)
			name, sort := x.opaqueHeap(et)
			h := x.heapTerm(st, name, sort)
			x.setHeap(st, name, mkStore(h, ref, x.tc.pack(x, x.tc.zero(x, et))))
			v := Value{K: KRef, T: ins.Type(), S: ref}
			fr.regs[ins] = v
			if ins.Comment != "" {
				fr.vars[ins.Comment] = v
			}
			return
		}
		c := x.newCell(ins.Comment, et)
		c.site = ins
		st.cells[c] = x.tc.zero(x, et)
		v := Value{K: KPtr, T: ins.Type(), B: BCell, Cell: c}
		fr.regs[ins] = v
		if ins.Comment != "" {
			fr.vars[ins.Comment] = v
			// same-named locals (the hidden index of each range loop, shadowed variables) are
			// also reachable as <name>1, <name>2, ... in order of appearance in the function
			k := 0
			for _, b := range fr.fn.Blocks {
				for _, in := range b.Instrs {
					if a, ok := in.(*ssa.Alloc); ok && a.Comment == ins.Comment {
						k++
						if a == ins {
							fr.vars[fmt.Sprintf("%s%d", ins.Comment, k)] = v
						}
					}
				}
			}
		}
	case *ssa.Store:
		x.store(st, x.operand(st, fr, ins.Addr), x.operand(st, fr, ins.Val), ins.Pos())
	case *ssa.UnOp:
		fr.regs[ins] = x.unop(st, fr, ins)
	case *ssa.BinOp:
		fr.regs[ins] = x.binop(st, ins.Op, x.operand(st, fr, ins.X), x.operand(st, fr, ins.Y), ins.Type(), ins.Pos())
	case *ssa.Convert:
		fr.regs[ins] = x.convert(st, x.operand(st, fr, ins.X), ins.Type(), ins.Pos())
	case *ssa.ChangeType:
		v := x.operand(st, fr, ins.X)
		fr.regs[ins] = x.retag(st, v, ins.Type())
	case *ssa.ChangeInterface:
		v := x.operand(st, fr, ins.X)
		v.T = ins.Type()
		fr.regs[ins] = v
	case *ssa.MakeInterface:
		v := x.operand(st, fr, ins.X)
		id := x.d.fresh("iface", sInt)
		st.assume(mkAnd(mkCmp(">", id, "0"), mkCmp("<", id, st.alloc)))
		// identity is a function of the payload for comparable scalar payloads
		switch v.K {
		case KRef, KInt, KStr, KBool, KBV8, KOpaque:
			fn := "ifaceOf$" + sanitize(x.tc.sortOf(v.T)) + "$" + sanitize(types.TypeString(v.T, nil))
			x.d.fun(fn, []string{x.tc.sortOf(v.T)}, sInt)
			st.assume(mkEq(id, "("+fn+" "+v.S+")"))
		}
		vv := v
		fr.regs[ins] = Value{K: KIface, T: ins.Type(), S: id, Dyn: &vv}
	case *ssa.TypeAssert:
		fr.regs[ins] = x.typeAssert(st, fr, ins)
	case *ssa.Extract:
		t := x.operand(st, fr, ins.Tuple)
		if ins.Index >= len(t.Fields) {
			unsupported("extract %d of %d-tuple", ins.Index, len(t.Fields))
		}
		fr.regs[ins] = t.Fields[ins.Index]
	case *ssa.Field:
		v := x.operand(st, fr, ins.X)
		if v.K != KStruct {
			unsupported("field of non-struct value")
		}
		fr.regs[ins] = v.Fields[ins.Field]
	case *ssa.FieldAddr:
		p := x.operand(st, fr, ins.X)
		fr.regs[ins] = x.fieldAddr(st, p, ins.Field, ins.Type(), ins.Pos())
	case *ssa.IndexAddr:
		fr.regs[ins] = x.indexAddr(st, x.operand(st, fr, ins.X), x.operand(st, fr, ins.Index), ins.Type(), ins.Pos())
	case *ssa.Index:
		fr.regs[ins] = x.index(st, x.operand(st, fr, ins.X), x.operand(st, fr, ins.Index), ins.Type(), ins.Pos())
	case *ssa.Slice:
		fr.regs[ins] = x.slice(st, fr, ins)
	case *ssa.MakeSlice:
		l := x.toInt(st, x.operand(st, fr, ins.Len))
		c := x.toInt(st, x.operand(st, fr, ins.Cap))
		x.safetyCheck(st, "makeneg", mkAnd(mkCmp("<=", "0", l), mkCmp("<=", l, c), mkCmp("<=", c, maxSliceLen)), ins.Pos())
		et := ins.Type().Underlying().(*types.Slice).Elem()
		rid := x.allocRef(st)
		x.setRegion(st, rid, et, x.constArray(et))
		fr.regs[ins] = Value{K: KSlice, T: ins.Type(), Rid: rid, Off: "0", Len: l, Cap: c}
	case *ssa.MakeMap:
		mt := ins.Type().Underlying().(*types.Map)
		ref := x.allocRef(st)
		pn, ps, _, _ := x.mapHeapNames(mt)
		ph := x.heapTerm(st, pn, ps)
		x.setHeap(st, pn, mkStore(ph, ref, "((as const (Array "+x.tc.sortOf(mt.Key())+" Bool)) false)"))
		x.setMapLen(st, ref, "0")
		fr.regs[ins] = Value{K: KMap, T: ins.Type(), S: ref}
	case *ssa.MakeChan:
		ref := x.allocRef(st)
		fr.regs[ins] = Value{K: KChan, T: ins.Type(), S: ref}
	case *ssa.MakeClosure:
		fn := ins.Fn.(*ssa.Function)
		var binds []Value
		for _, b := range ins.Bindings {
			binds = append(binds, x.operand(st, fr, b))
		}
		fr.regs[ins] = Value{K: KFunc, T: ins.Type(), Fn: fn, Binds: binds}
	case *ssa.Lookup:
		fr.regs[ins] = x.lookup(st, fr, ins)
	case *ssa.MapUpdate:
		m := x.operand(st, fr, ins.Map)
		k := x.operand(st, fr, ins.Key)
		v := x.operand(st, fr, ins.Value)
		x.mapUpdate(st, m, k, v, ins.Pos())
	case *ssa.Range:
		xv := x.operand(st, fr, ins.X)
		id := x.allocRef(st)
		if xv.K == KMap {
			mt := xv.T.Underlying().(*types.Map)
			name, sort := x.iterHeap(mt.Key())
			h := x.heapTerm(st, name, sort)
			x.setHeap(st, name, mkStore(h, id, "((as const (Array "+x.tc.sortOf(mt.Key())+" Bool)) false)"))
			fr.lastIter = id
			fr.lastIterK = mt.Key()
		}
		xx := xv
		fr.regs[ins] = Value{K: KOpaque, T: ins.Type(), S: id, Dyn: &xx}
	case *ssa.Next:
		fr.regs[ins] = x.next(st, fr, ins)
	case *ssa.Defer:
		call := ins.Common()
		fnv, args := x.evalCallee(st, fr, call)
		fr.defers = append(fr.defers, deferred{call: call, fnv: fnv, args: args, pos: ins.Pos(), instr: ins})
	case *ssa.Go:
		x.note("go statement in %s: body not executed (concurrent body, sequential reasoning only)", fr.fn.Name())
		// a spawned function under contract: its preconditions are obligations of the spawn
		// point (the body is verified as its own unit from exactly those preconditions);
		// the contract's effects are not applied here
		if fnv, args := x.evalCallee(st, fr, ins.Common()); fnv.Fn != nil {
			key := funcKey(fnv.Fn)
			if c := x.contractOf(key); c != nil && !c.Inline && len(c.Requires) > 0 {
				st2 := st.clone()
				x.pendingBinds = fnv.Binds
				x.applyContract(st2, fr, c, key, fnv.Fn.Signature, fnv.Fn, args, ins.Pos())
				x.note("preconditions of %s checked at the go statement in %s", shortName(key), fr.fn.Name())
			}
		}
		x.havocGoEffects(st, fr, ins.Common())
	case *ssa.Send:
		// a send is a no-op on tracked state; if the package declares the ghost
		// counter `chansends` it counts the sends (so "an event is emitted exactly
		// when ..." can be a postcondition)
		if g, ok := st.ghost["chansends"]; ok {
			g.S = mkAdd(g.S, "1")
			st.ghost["chansends"] = g
			x.note("channel send counted in ghost chansends in %s", fr.fn.Name())
		} else {
			x.note("channel send abstracted as no-op in %s", fr.fn.Name())
		}
	case *ssa.Select:
		x.note("select abstracted as nondeterministic choice in %s", fr.fn.Name())
		fr.regs[ins] = x.symbolic(st, ins.Type(), "select")
		idx := fr.regs[ins].Fields[0]
		lo := "0"
		if !ins.Blocking {
			lo = "(- 1)"
		}
		st.assume(mkAnd(mkCmp("<=", lo, idx.S), mkCmp("<", idx.S, intLit64(int64(len(ins.States))))))
	case *ssa.SliceToArrayPointer:
		unsupported("slice to array pointer conversion")
	case *ssa.MultiConvert:
		unsupported("multiconvert")
	default:
		unsupported("instruction %T", ins)
	}
}

func (x *Exec) constArray(et types.Type) string {
	ez := x.tc.pack(x, x.tc.zero(x, et))
	return constArrayTerm(x, "(Array Int "+x.tc.sortOf(et)+")", ez)
}

func (x *Exec) retag(st *State, v Value, t types.Type) Value {
	nk := x.tc.kindOf(t)
	if nk == v.K || (nk == KRef && v.K == KPtr) {
		v.T = t
		if v.K == KStruct {
			// field types may differ nominally but are identical structurally
		}
		return v
	}
	// opaque <-> structural: abstracted
	x.note("conversion between %v and %v abstracted (fresh value)", v.T, t)
	return x.symbolic(st, t, "conv")
}

func (x *Exec) toInt(st *State, v Value) string {
	switch v.K {
	case KInt:
		return v.S
	case KBV8:
		return x.b2iNamed(st, v.S)
	case KOpaque:
		return v.S
	}
	unsupported("toInt of kind %d", v.K)
	return ""
}

// i2b converts an Int term (any value) to BV8 (mod 256).
func (x *Exec) i2b(st *State, t string) string {
	if v, ok := isIntLit(t); ok {
		m := new(big.Int).Mod(v, big.NewInt(256))
		return bv8Lit(uint8(m.Uint64()))
	}
	if strings.HasPrefix(t, "(b2i ") {
		return t[5 : len(t)-1]
	}
	c := x.d.fresh("b", sBV8)
	st.assume(mkEq(mkB2I(c), "(mod "+t+" 256)"))
	return c
}

func (x *Exec) fieldAddr(st *State, p Value, field int, resT types.Type, pos token.Pos) Value {
	switch p.K {
	case KRef:
		x.safetyCheck(st, "nil", mkNot(mkEq(p.S, "0")), pos)
		et := pointee(p.T)
		if !x.isStructLike(et) {
			unsupported("field address into opaque type %v", et)
		}
		return Value{K: KPtr, T: resT, B: BObj, Ref: p.S, ObjT: et, Path: []PathElem{{Field: field}}}
	case KPtr:
		np := p
		np.T = resT
		np.Path = append(append([]PathElem(nil), p.Path...), PathElem{Field: field})
		return np
	}
	unsupported("fieldaddr on kind %d (%v)", p.K, p.T)
	return Value{}
}

func (x *Exec) indexAddr(st *State, base, idx Value, resT types.Type, pos token.Pos) Value {
	i := x.toInt(st, idx)
	switch base.K {
	case KSlice:
		x.safetyCheck(st, "idx", mkAnd(mkCmp("<=", "0", i), mkCmp("<", i, base.Len)), pos)
		et := base.T.Underlying().(*types.Slice).Elem()
		return Value{K: KPtr, T: resT, B: BElem, Rid: base.Rid, Idx: mkAdd(base.Off, i), ObjT: et}
	case KPtr:
		at, ok := pointee(base.T).Underlying().(*types.Array)
		if !ok {
			unsupported("indexaddr through pointer to %v", base.T)
		}
		x.safetyCheck(st, "idx", mkAnd(mkCmp("<=", "0", i), mkCmp("<", i, intLit64(at.Len()))), pos)
		np := base
		np.T = resT
		np.Path = append(append([]PathElem(nil), base.Path...), PathElem{Idx: i})
		return np
	case KRef:
		// pointer to heap array (opaque heap)
		unsupported("indexaddr through heap array pointer")
	}
	unsupported("indexaddr on kind %d", base.K)
	return Value{}
}

func (x *Exec) index(st *State, base, idx Value, resT types.Type, pos token.Pos) Value {
	i := x.toInt(st, idx)
	switch base.K {
	case KArray:
		at := base.T.Underlying().(*types.Array)
		x.safetyCheck(st, "idx", mkAnd(mkCmp("<=", "0", i), mkCmp("<", i, intLit64(at.Len()))), pos)
		v := x.tc.unpack(x, at.Elem(), mkSelect(x.arrayTerm(st, base), i))
		x.assumeWF(st, v)
		return v
	case KStr:
		x.safetyCheck(st, "idx", mkAnd(mkCmp("<=", "0", i), mkCmp("<", i, "(strlen "+base.S+")")), pos)
		x.d.fun("strat", []string{sStr, sInt}, sBV8)
		return Value{K: KBV8, T: resT, S: "(strat " + base.S + " " + i + ")"}
	}
	unsupported("index on kind %d", base.K)
	return Value{}
}

func (x *Exec) slice(st *State, fr *Frame, ins *ssa.Slice) Value {
	base := x.operand(st, fr, ins.X)
	opt := func(v ssa.Value, def string) string {
		if v == nil {
			return def
		}
		return x.toInt(st, x.operand(st, fr, v))
	}
	switch base.K {
	case KSlice:
		lo := opt(ins.Low, "0")
		hi := opt(ins.High, base.Len)
		mx := opt(ins.Max, base.Cap)
		x.safetyCheck(st, "slice", mkAnd(mkCmp("<=", "0", lo), mkCmp("<=", lo, hi), mkCmp("<=", hi, mx), mkCmp("<=", mx, base.Cap)), ins.Pos())
		rid := base.Rid
		return Value{K: KSlice, T: ins.Type(), Rid: rid, Off: mkAdd(base.Off, lo), Len: mkSub(hi, lo), Cap: mkSub(mx, lo)}
	case KStr:
		n := "(strlen " + base.S + ")"
		lo := opt(ins.Low, "0")
		hi := opt(ins.High, n)
		x.safetyCheck(st, "slice", mkAnd(mkCmp("<=", "0", lo), mkCmp("<=", lo, hi), mkCmp("<=", hi, n)), ins.Pos())
		x.d.fun("substr", []string{sStr, sInt, sInt}, sStr)
		r := "(substr " + base.S + " " + lo + " " + hi + ")"
		st.assume(mkEq("(strlen "+r+")", mkSub(hi, lo)))
		return Value{K: KStr, T: ins.Type(), S: r}
	case KPtr:
		at, ok := pointee(base.T).Underlying().(*types.Array)
		if !ok {
			unsupported("slice of pointer to %v", base.T)
		}
		n := intLit64(at.Len())
		lo := opt(ins.Low, "0")
		hi := opt(ins.High, n)
		mx := opt(ins.Max, n)
		x.safetyCheck(st, "slice", mkAnd(mkCmp("<=", "0", lo), mkCmp("<=", lo, hi), mkCmp("<=", hi, mx), mkCmp("<=", mx, n)), ins.Pos())
		// the array must live in a region so that the slice aliases it
		if base.B == BCell {
			cur := x.getPathCell(st, base)
			if cur.Rid == "" {
				rid := x.allocRef(st)
				x.setRegion(st, rid, at.Elem(), cur.S)
				nv := Value{K: KArray, T: cur.T, Rid: rid}
				st.cells[base.Cell] = x.setPathRaw(st, st.cells[base.Cell], base.Path, nv)
				cur = nv
			}
			return Value{K: KSlice, T: ins.Type(), Rid: cur.Rid, Off: lo, Len: mkSub(hi, lo), Cap: mkSub(mx, lo)}
		}
		// array inside a heap object: copy semantics lost (abstraction)
		x.note("slice of array field in heap object: aliasing with the field not tracked (%s)", fr.fn.Name())
		arr := x.load(st, base, ins.Pos())
		rid := x.allocRef(st)
		x.setRegion(st, rid, at.Elem(), arr.S)
		return Value{K: KSlice, T: ins.Type(), Rid: rid, Off: lo, Len: mkSub(hi, lo), Cap: mkSub(mx, lo)}
	}
	unsupported("slice on kind %d", base.K)
	return Value{}
}

func (x *Exec) getPathCell(st *State, p Value) Value {
	cv := st.cells[p.Cell]
	for _, pe := range p.Path {
		if cv.K == KStruct {
			cv = cv.Fields[pe.Field]
		} else {
			unsupported("array slicing through nested array path")
		}
	}
	return cv
}

func (x *Exec) setPathRaw(st *State, v Value, path []PathElem, nv Value) Value {
	if len(path) == 0 {
		return nv
	}
	out := v
	out.Fields = append([]Value(nil), v.Fields...)
	out.Fields[path[0].Field] = x.setPathRaw(st, v.Fields[path[0].Field], path[1:], nv)
	return out
}

func (x *Exec) unop(st *State, fr *Frame, ins *ssa.UnOp) Value {
	v := x.operand(st, fr, ins.X)
	switch ins.Op {
	case token.MUL:
		return x.load(st, v, ins.Pos())
	case token.NOT:
		return Value{K: KBool, T: ins.Type(), S: mkNot(v.S)}
	case token.SUB:
		switch v.K {
		case KInt:
			bits, signed, _ := intInfo(v.T)
			return Value{K: KInt, T: ins.Type(), S: wrapInt(mkSub("0", v.S), bits, signed)}
		case KBV8:
			return Value{K: KBV8, T: ins.Type(), S: "(bvneg " + v.S + ")"}
		case KReal:
			return Value{K: KReal, T: ins.Type(), S: "(- " + v.S + ")"}
		case KOpaque:
			return Value{K: KOpaque, T: ins.Type(), S: mkSub("0", v.S)}
		}
	case token.XOR:
		switch v.K {
		case KBV8:
			return Value{K: KBV8, T: ins.Type(), S: "(bvnot " + v.S + ")"}
		case KInt:
			bits, signed, _ := intInfo(v.T)
			if signed {
				return Value{K: KInt, T: ins.Type(), S: mkSub(mkSub("0", v.S), "1")}
			}
			return Value{K: KInt, T: ins.Type(), S: mkSub(intLit(new(big.Int).Sub(pow2(bits), big.NewInt(1))), v.S)}
		}
	case token.ARROW:
		x.note("channel receive abstracted as havoc in %s", fr.fn.Name())
		return x.symbolic(st, ins.Type(), "recv")
	}
	unsupported("unop %v on kind %d", ins.Op, v.K)
	return Value{}
}

func (x *Exec) typeAssert(st *State, fr *Frame, ins *ssa.TypeAssert) Value {
	v := x.operand(st, fr, ins.X)
	mk := func(val Value, ok string) Value {
		if ins.CommaOk {
			return Value{K: KTuple, T: ins.Type(), Fields: []Value{val, {K: KBool, T: types.Typ[types.Bool], S: ok}}}
		}
		return val
	}
	if v.Dyn != nil {
		dt := v.Dyn.T
		if _, isIface := ins.AssertedType.Underlying().(*types.Interface); isIface {
			if types.Implements(dt, ins.AssertedType.Underlying().(*types.Interface)) {
				nv := v
				nv.T = ins.AssertedType
				return mk(nv, tTrue)
			}
			if ins.CommaOk {
				return mk(x.tc.zero(x, ins.AssertedType), tFalse)
			}
			x.safetyCheck(st, "assertT", tFalse, ins.Pos())
			return x.tc.zero(x, ins.AssertedType)
		}
		if types.Identical(dt, ins.AssertedType) {
			return mk(*v.Dyn, tTrue)
		}
		if ins.CommaOk {
			return mk(x.tc.zero(x, ins.AssertedType), tFalse)
		}
		x.safetyCheck(st, "assertT", tFalse, ins.Pos())
		return x.tc.zero(x, ins.AssertedType)
	}
	// unknown dynamic type
	if _, isIface := ins.AssertedType.Underlying().(*types.Interface); isIface {
		nv := v
		nv.T = ins.AssertedType
		if ins.CommaOk {
			ok := x.d.fresh("taok", sBool)
			st.assume(mkImp(ok, mkNot(mkEq(v.S, "0"))))
			return mk(nv, ok)
		}
		x.note("single-value interface-to-interface assertion assumed to succeed in %s", fr.fn.Name())
		return nv
	}
	val := x.symbolic(st, ins.AssertedType, "ta")
	if ins.CommaOk {
		ok := x.d.fresh("taok", sBool)
		st.assume(mkImp(ok, mkNot(mkEq(v.S, "0"))))
		return mk(val, ok)
	}
	if x.wireTainted(v) {
		x.safetyCheck(st, "assertT", tFalse, ins.Pos())
	} else {
		x.note("single-value type assertion on unknown interface assumed to succeed in %s", fr.fn.Name())
	}
	return val
}

func (x *Exec) wireTainted(v Value) bool { return false }

// ---------------------------------------------------------------------------
// maps

func (x *Exec) keyTerm(st *State, k Value) string {
	switch k.K {
	case KInt, KBV8, KStr, KBool, KOpaque, KRef, KIface, KArray:
		return k.S
	case KStruct:
		return x.tc.pack(x, k)
	}
	unsupported("map key kind %d", k.K)
	return ""
}

func (x *Exec) iterHeap(keyT types.Type) (string, string) {
	ks := x.tc.sortOf(keyT)
	return "IT$" + sanitize(ks), "(Array Int (Array " + ks + " Bool))"
}

func (x *Exec) mapLenHeap() (string, string) { return "MLEN", "(Array Int Int)" }

func (x *Exec) setMapLen(st *State, ref, n string) {
	name, sort := x.mapLenHeap()
	h := x.heapTerm(st, name, sort)
	x.setHeap(st, name, mkStore(h, ref, n))
}

func (x *Exec) mapLen(st *State, ref string) string {
	name, sort := x.mapLenHeap()
	h := x.heapTerm(st, name, sort)
	t := mkSelect(h, ref)
	if !st.wf["maplen|"+t] {
		st.wf["maplen|"+t] = true
		st.assume(mkAnd(mkCmp("<=", "0", t), mkCmp("<=", t, maxSliceLen)))
	}
	return t
}

func (x *Exec) lookup(st *State, fr *Frame, ins *ssa.Lookup) Value {
	m := x.operand(st, fr, ins.X)
	k := x.operand(st, fr, ins.Index)
	if m.K == KStr {
		return x.index(st, m, k, ins.Type(), ins.Pos())
	}
	mt := m.T.Underlying().(*types.Map)
	present, val := x.mapGet(st, m, k)
	zero := x.tc.zero(x, mt.Elem())
	res := x.iteValue(st, present, val, zero)
	if ins.CommaOk {
		return Value{K: KTuple, T: ins.Type(), Fields: []Value{res, {K: KBool, T: types.Typ[types.Bool], S: present}}}
	}
	return res
}

func (x *Exec) mapGet(st *State, m, k Value) (present string, val Value) {
	mt := m.T.Underlying().(*types.Map)
	pn, ps, vn, vs := x.mapHeapNames(mt)
	ph := x.heapTerm(st, pn, ps)
	vh := x.heapTerm(st, vn, vs)
	kt := x.keyTerm(st, k)
	present = mkAnd(mkNot(mkEq(m.S, "0")), mkSelect(mkSelect(ph, m.S), kt))
	val = x.tc.unpack(x, mt.Elem(), mkSelect(mkSelect(vh, m.S), kt))
	x.assumeWF(st, val)
	return
}

func (x *Exec) mapUpdate(st *State, m, k, v Value, pos token.Pos) {
	x.safetyCheck(st, "mapnil", mkNot(mkEq(m.S, "0")), pos)
	mt := m.T.Underlying().(*types.Map)
	pn, ps, vn, vs := x.mapHeapNames(mt)
	ph := x.heapTerm(st, pn, ps)
	vh := x.heapTerm(st, vn, vs)
	kt := x.keyTerm(st, k)
	was := mkSelect(mkSelect(ph, m.S), kt)
	n := x.mapLen(st, m.S)
	x.setMapLen(st, m.S, mkIte(was, n, mkAdd(n, "1")))
	x.setHeap(st, pn, mkStore(ph, m.S, mkStore(mkSelect(ph, m.S), kt, tTrue)))
	x.setHeap(st, vn, mkStore(vh, m.S, mkStore(mkSelect(vh, m.S), kt, x.tc.pack(x, v))))
}

func (x *Exec) mapDelete(st *State, m, k Value) {
	mt := m.T.Underlying().(*types.Map)
	pn, ps, _, _ := x.mapHeapNames(mt)
	ph := x.heapTerm(st, pn, ps)
	kt := x.keyTerm(st, k)
	was := mkAnd(mkNot(mkEq(m.S, "0")), mkSelect(mkSelect(ph, m.S), kt))
	n := x.mapLen(st, m.S)
	x.setMapLen(st, m.S, mkIte(was, mkSub(n, "1"), n))
	x.setHeap(st, pn, mkStore(ph, m.S, mkStore(mkSelect(ph, m.S), kt, tFalse)))
}

func (x *Exec) next(st *State, fr *Frame, ins *ssa.Next) Value {
	it := x.operand(st, fr, ins.Iter)
	tt := ins.Type().(*types.Tuple)
	if ins.IsString || it.Dyn == nil || it.Dyn.K != KMap {
		x.note("range over string abstracted (havoc) in %s", fr.fn.Name())
		return x.symbolic(st, tt, "next")
	}
	m := *it.Dyn
	mt := m.T.Underlying().(*types.Map)
	ok := x.d.fresh("next.ok", sBool)
	kv := x.symbolic(st, mt.Key(), "next.k")
	kt := x.keyTerm(st, kv)
	name, sort := x.iterHeap(mt.Key())
	ih := x.heapTerm(st, name, sort)
	visited := mkSelect(ih, it.S)
	present, val := x.mapGet(st, m, kv)
	st.assume(mkImp(ok, mkAnd(present, mkNot(mkSelect(visited, kt)))))
	// exhaustion: every present key has been visited
	ks := x.tc.sortOf(mt.Key())
	pn, ps, _, _ := x.mapHeapNames(mt)
	ph := x.heapTerm(st, pn, ps)
	q := fmt.Sprintf("(forall ((k!q %s)) (=> (select (select %s %s) k!q) (select %s k!q)))", ks, ph, m.S, visited)
	st.assume(mkImp(mkNot(ok), mkOr(mkEq(m.S, "0"), q)))
	x.setHeap(st, name, mkStore(ih, it.S, mkIte(ok, mkStore(visited, kt, tTrue), visited)))
	kOut, vOut := kv, val
	if _, isInvalid := tt.At(1).Type().(*types.Basic); isInvalid && tt.At(1).Type().(*types.Basic).Kind() == types.Invalid {
		kOut = Value{K: KInt, T: tt.At(1).Type(), S: "0"}
	}
	if b, isB := tt.At(2).Type().(*types.Basic); isB && b.Kind() == types.Invalid {
		vOut = Value{K: KInt, T: tt.At(2).Type(), S: "0"}
	}
	return Value{K: KTuple, T: tt, Fields: []Value{{K: KBool, T: types.Typ[types.Bool], S: ok}, kOut, vOut}}
}

// iteValue builds ite(c, a, b) over structured values.
func (x *Exec) iteValue(st *State, c string, a, b Value) Value {
	if c == tTrue {
		return a
	}
	if c == tFalse {
		return b
	}
	switch a.K {
	case KSlice:
		return Value{K: KSlice, T: a.T, Rid: mkIte(c, a.Rid, b.Rid), Off: mkIte(c, a.Off, b.Off), Len: mkIte(c, a.Len, b.Len), Cap: mkIte(c, a.Cap, b.Cap)}
	case KStruct, KTuple:
		out := Value{K: a.K, T: a.T}
		for i := range a.Fields {
			out.Fields = append(out.Fields, x.iteValue(st, c, a.Fields[i], b.Fields[i]))
		}
		return out
	case KFunc, KPtr:
		if a.S == "" || b.S == "" {
			return Value{K: a.K, T: a.T, S: mkIte(c, x.tc.pack(x, a), x.tc.pack(x, b))}
		}
	case KIface:
		return Value{K: KIface, T: a.T, S: mkIte(c, a.S, b.S)}
	}
	return Value{K: a.K, T: a.T, S: mkIte(c, a.S, b.S)}
}

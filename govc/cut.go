package main

// Cut points ("block contracts"): `cut <callee>: <expr>` in a function contract names a
// program point - just before the first call of <callee> in the unit's own body - at which
// every path must establish <expr>; execution then continues ONCE from a merged state in
// which everything that differs between the arriving paths is forgotten (havocked) and
// only <expr> plus the facts common to all arriving paths are known.  This is the
// assert-then-forget rule of deductive verifiers applied to straight-line code: it is
// sound (the continuation is verified for every state satisfying the cut condition) and
// it stops the multiplication of paths across independent branch blocks.

import (
	"fmt"
	"os"
	"go/token"
	"reflect"
	"sort"
	"strings"

	"golang.org/x/tools/go/ssa"
)

type CutSpec struct {
	Callee string
	Cl     []Clause
}

func (x *Exec) cutFor(fr *Frame, ins *ssa.Call) *CutSpec {
	if fr.depth != 0 || fr.contract == nil || len(fr.contract.Cuts) == 0 || x.cutDone[ins] || x.bounded > 0 {
		return nil
	}
	cc := ins.Common()
	key := ""
	if cc.IsInvoke() {
		key = ifaceMethodKey(cc.Value.Type(), cc.Method)
	} else if f := cc.StaticCallee(); f != nil {
		key = funcKey(f)
	} else {
		return nil
	}
	short := shortName(key)
	for i := range fr.contract.Cuts {
		c := &fr.contract.Cuts[i]
		if c.Callee == short || c.Callee == key || strings.HasSuffix(key, "."+c.Callee) || strings.HasSuffix(short, "."+c.Callee) {
			// only the first (in program order) call of that callee is a cut point
			if first := x.firstCallOf(fr.fn, c.Callee); first == nil || first == ins {
				return c
			}
		}
	}
	return nil
}

func (x *Exec) firstCallOf(fn *ssa.Function, callee string) *ssa.Call {
	var best *ssa.Call
	for _, b := range fn.Blocks {
		for _, in := range b.Instrs {
			c, ok := in.(*ssa.Call)
			if !ok {
				continue
			}
			cc := c.Common()
			key := ""
			if cc.IsInvoke() {
				key = ifaceMethodKey(cc.Value.Type(), cc.Method)
			} else if f := cc.StaticCallee(); f != nil {
				key = funcKey(f)
			}
			short := shortName(key)
			if key == "" || !(callee == short || callee == key || strings.HasSuffix(key, "."+callee) || strings.HasSuffix(short, "."+callee)) {
				continue
			}
			if best == nil || c.Pos() < best.Pos() {
				best = c
			}
		}
	}
	return best
}

// mergeCut turns the work items that arrived at a cut point into one.
func (x *Exec) mergeCut(ins *ssa.Call, spec *CutSpec, arr []workItem) workItem {
	x.cutDone[ins] = true
	x.cutFired[spec.Callee] = true
	for _, it := range arr {
		env := x.frameEnv(it.st, it.fr, nil)
		for _, cl := range spec.Cl {
			x.oblige(it.st, "cut", spec.Callee+":"+cl.Label, env.evalBool(cl.E), ins.Pos())
		}
	}
	base := arr[0]
	m := base.st.clone()
	fr := base.fr.clone()
	if len(arr) > 1 {
		// common prefix of the path conditions
		lca := base.st.pc
		for _, it := range arr[1:] {
			lca = pcLCA(lca, it.st.pc)
		}
		m.pc = lca
		m.pivots = nil
		m.memo = nil
		// allocation counter: some value not below the entry counter
		na := x.d.fresh("cut.alloc", sInt)
		m.assume(mkCmp("<=", x.alloc0, na))
		m.alloc = na
		// fresh names introduced after the paths forked denote "the object allocated at
		// that point of this path": a value that is such a name on every arriving path is
		// the same thing up to renaming, and the merged state keeps the base path's name
		forkN := 0
		if lca != nil {
			forkN = lca.dn
		}
		renamable := func(vals []Value) bool {
			for _, v := range vals {
				switch v.K {
				case KRef, KMap, KChan:
					if !freshAfter(v.S, forkN) {
						return false
					}
				case KSlice:
					if !(freshAfter(v.Rid, forkN) && isLit(v.Off) && isLit(v.Len) && isLit(v.Cap)) {
						return false
					}
				default:
					return false
				}
			}
			// all slices must agree on their literal extents
			for _, v := range vals[1:] {
				if v.K != vals[0].K || (v.K == KSlice && (v.Off != vals[0].Off || v.Len != vals[0].Len || v.Cap != vals[0].Cap)) {
					return false
				}
			}
			return true
		}
		renamed := map[string]Value{}
		var equiv func(a, b Value) bool
		equiv = func(a, b Value) bool {
			if a.K == KFunc && b.K == KFunc && a.Fn != nil && a.Fn == b.Fn && len(a.Binds) == len(b.Binds) {
				for i := range a.Binds {
					if !equiv(a.Binds[i], b.Binds[i]) {
						return false
					}
				}
				return true
			}
			if sameModCells(a, b) {
				return true
			}
			if renamable([]Value{a, b}) {
				renamed[a.S+"|"+a.Rid] = a
				return true
			}
			return false
		}
		// cells: matched across paths by the Alloc that created them
		bySite := make([]map[ssa.Instruction]*Cell, len(arr))
		for k, it := range arr {
			bySite[k] = map[ssa.Instruction]*Cell{}
			for c := range it.st.cells {
				if c.site != nil {
					bySite[k][c.site] = c
				}
			}
		}
		var cells []*Cell
		for c := range m.cells {
			cells = append(cells, c)
		}
		sort.Slice(cells, func(i, j int) bool { return cells[i].id < cells[j].id })
		for _, c := range cells {
			vals := []Value{m.cells[c]}
			same, all := true, true
			for k, it := range arr[1:] {
				oc := c
				if _, ok := it.st.cells[c]; !ok && c.site != nil {
					oc = bySite[k+1][c.site]
				}
				ov, ok := Value{}, false
				if oc != nil {
					ov, ok = it.st.cells[oc]
				}
				if !ok {
					all = false
					break
				}
				vals = append(vals, ov)
				if !equiv(m.cells[c], ov) {
					same = false
				}
			}
			if all && same {
				continue
			}
			cv := m.cells[c]
			if cv.K == KFunc && cv.Fn != nil {
				continue
			}
			m.cells[c] = x.symbolicLike(m, cv, "cut."+c.name)
		}
		// heaps
		names := map[string]bool{}
		for _, it := range arr {
			for n := range it.st.heaps {
				names[n] = true
			}
		}
		var hn []string
		for n := range names {
			hn = append(hn, n)
		}
		sort.Strings(hn)
		for _, n := range hn {
			t0, ok0 := base.st.heaps[n]
			same := ok0
			for _, it := range arr[1:] {
				if t, ok := it.st.heaps[n]; !ok || !ok0 || t != t0 {
					// a heap not yet touched on a path still has its initial term
					if !ok && ok0 && t0 == x.initHeapTerm(n) {
						continue
					}
					if ok && !ok0 && t == x.initHeapTerm(n) {
						continue
					}
					same = false
					break
				}
			}
			if !same {
				sortS := x.heapSorts[n]
				if sortS == "" {
					unsupported("cut: heap %s of unknown sort differs between paths", n)
				}
				if os.Getenv("GOVC_DEBUGCUT") != "" {
					fmt.Fprintf(os.Stderr, "cut: heap %s havocked\n", n)
				}
				m.heaps[n] = x.d.fresh("cut."+n, sortS)
				x.assumeHeapWF(m, n, m.heaps[n])
				if m.noframe == nil {
					m.noframe = map[string]bool{}
				}
				m.noframe[n] = true
			}
		}
		// ghosts
		for g, v := range m.ghost {
			for _, it := range arr[1:] {
				if ov, ok := it.st.ghost[g]; !ok || !reflect.DeepEqual(ov, v) {
					m.ghost[g] = x.freshLike(m, v, "cut.ghost."+g)
					break
				}
			}
		}
		// registers defined on diverging paths are not available afterwards
		for r, v := range fr.regs {
			vals := []Value{v}
			same, all := true, true
			for _, it := range arr[1:] {
				ov, ok := it.fr.regs[r]
				if !ok {
					all = false
					break
				}
				vals = append(vals, ov)
				if !equiv(v, ov) {
					same = false
				}
			}
			if !(all && same) {
				delete(fr.regs, r)
			}
		}
		// objects allocated on every path before the cut: allocated, hence non-nil and
		// below the allocation counter of the merged state
		var rk []string
		for k := range renamed {
			rk = append(rk, k)
		}
		sort.Strings(rk)
		for _, k := range rk {
			v := renamed[k]
			id := v.S
			if v.K == KSlice {
				id = v.Rid
			}
			m.assume(mkAnd(mkCmp("<", "0", id), mkCmp("<", id, m.alloc)))
		}
		// operands of the call computed in this block after its last side effect are
		// recomputed on the merged state (address computations, loads, conversions,
		// closure construction)
		last := -1
		for k := 0; k < base.idx; k++ {
			switch base.block.Instrs[k].(type) {
			case *ssa.Store, *ssa.Call, *ssa.MapUpdate, *ssa.Send, *ssa.Go, *ssa.Defer, *ssa.RunDefers, *ssa.Next, *ssa.Range, *ssa.Select, *ssa.Alloc, *ssa.MakeSlice, *ssa.MakeMap, *ssa.MakeChan, *ssa.Panic:
				last = k
			}
		}
		for k := last + 1; k < base.idx; k++ {
			if _, isDbg := base.block.Instrs[k].(*ssa.DebugRef); isDbg {
				continue
			}
			x.step(m, fr, base.block.Instrs[k])
		}
		x.note("cut before %s: %d paths merged", spec.Callee, len(arr))
	}
	env := x.frameEnv(m, fr, nil)
	for _, cl := range spec.Cl {
		m.assume(env.evalBool(cl.E))
	}
	return workItem{st: m, fr: fr, block: base.block, idx: base.idx, prev: base.prev}
}

func pcLCA(a, b *PCNode) *PCNode {
	for a != nil && b != nil && a != b {
		if a.n > b.n {
			a = a.parent
		} else if b.n > a.n {
			b = b.parent
		} else {
			a, b = a.parent, b.parent
		}
	}
	if a == b {
		return a
	}
	return nil
}

var _ = token.NoPos

// sameModCells: equal values, where pointers to local variable cells allocated
// separately on each path (same variable of the same function) count as equal.
func sameModCells(a, b Value) bool {
	if a.K == KPtr && b.K == KPtr && a.B == BCell && b.B == BCell && a.Cell != nil && b.Cell != nil {
		return a.Cell == b.Cell || (a.Cell.name == b.Cell.name && a.Cell.T == b.Cell.T && reflect.DeepEqual(a.Path, b.Path))
	}
	if a.K == KFunc && b.K == KFunc && a.Fn != nil && a.Fn == b.Fn && len(a.Binds) == len(b.Binds) {
		for i := range a.Binds {
			if !sameModCells(a.Binds[i], b.Binds[i]) {
				return false
			}
		}
		return true
	}
	return reflect.DeepEqual(a, b)
}

// freshAfter: t is a plain fresh constant (prefix!N) introduced after counter value n.
func freshAfter(t string, n int) bool {
	if t == "" || strings.ContainsAny(t, " ()") {
		return false
	}
	i := strings.LastIndexByte(t, '!')
	if i < 0 {
		return false
	}
	k := 0
	for _, c := range t[i+1:] {
		if c < '0' || c > '9' {
			return false
		}
		k = k*10 + int(c-'0')
	}
	return k > n
}

func isLit(t string) bool {
	_, ok := isIntLit(t)
	return ok
}

package main

// Evaluation of contract expressions against a symbolic state.

import (
	"runtime/debug"
	"os"
	"fmt"
	"go/constant"
	"go/token"
	"go/types"
	"math/big"
	"sort"
	"strconv"
	"strings"

	"golang.org/x/tools/go/ssa"
)

type SpecError struct{ Msg string }

func (e *SpecError) Error() string { return e.Msg }

func specFail(format string, args ...interface{}) {
	if os.Getenv("GOVC_DEBUGSPEC") != "" {
		fmt.Fprintf(os.Stderr, "specFail: "+format+"\n", args...)
		debug.PrintStack()
	}
	panic(&SpecError{fmt.Sprintf(format, args...)})
}

type SpecEnv struct {
	x       *Exec
	st      *State
	old     *State
	pre     *State
	names   map[string]Value
	oldNames map[string]Value // names as bound in the old() state (callback units: captured variables at entry)
	preNames map[string]Value // names as bound in the pre() state
	fr      *Frame
	pkg     *types.Package
	results []Value
	sig     *types.Signature
	entry   bool // parameters denote entry values
	witFr   *Frame
	inWitness bool
}

// witnesses: current values of integer-typed named locals (most recent first).
func (e *SpecEnv) witnesses() []string {
	fr := e.fr
	if fr == nil {
		fr = e.witFr
	}
	if fr == nil || e.st == nil {
		return nil
	}
	var names []string
	for n := range fr.vars {
		names = append(names, n)
	}
	sort.Strings(names)
	var out []string
	seen := map[string]bool{}
	// explicit candidates from the contract, evaluated in the frame (skipped
	// where a variable is not live on this path)
	if fr.contract != nil && !e.inWitness {
		for _, we := range fr.contract.Witness {
			func() {
				defer func() {
					if r := recover(); r != nil {
						if _, ok := r.(*SpecError); !ok {
							panic(r)
						}
					}
				}()
				we2 := *e
				we2.fr = fr
				we2.inWitness = true
				v := we2.eval(we)
				if t := we2.asInt(v); !seen[t] {
					seen[t] = true
					out = append(out, t)
				}
			}()
		}
	}
	for _, n := range names {
		pv := fr.vars[n]
		if pv.K != KPtr || pv.B != BCell || len(pv.Path) != 0 {
			continue
		}
		cv, ok := e.st.cells[pv.Cell]
		if !ok || cv.K != KInt {
			continue
		}
		if _, lit := isIntLit(cv.S); lit || seen[cv.S] {
			continue
		}
		seen[cv.S] = true
		out = append(out, cv.S)
	}
	return out
}

func (e *SpecEnv) with(st *State) *SpecEnv {
	n := *e
	n.st = st
	return &n
}

func (e *SpecEnv) bind(name string, v Value) *SpecEnv {
	n := *e
	n.names = make(map[string]Value, len(e.names)+1)
	for k, vv := range e.names {
		n.names[k] = vv
	}
	n.names[name] = v
	// bound variables are the same in every state
	if e.oldNames != nil {
		n.oldNames = make(map[string]Value, len(e.oldNames)+1)
		for k, vv := range e.oldNames {
			n.oldNames[k] = vv
		}
		n.oldNames[name] = v
	}
	if e.preNames != nil {
		n.preNames = make(map[string]Value, len(e.preNames)+1)
		for k, vv := range e.preNames {
			n.preNames[k] = vv
		}
		n.preNames[name] = v
	}
	return &n
}

// frameEnv builds the environment for invariants/assertions inside fr.
func (x *Exec) frameEnv(st *State, fr *Frame, results []Value) *SpecEnv {
	env := &SpecEnv{x: x, st: st, old: x.entry, names: map[string]Value{}, fr: fr, results: results}
	if fr != nil {
		env.sig = fr.fn.Signature
		if fr.fn.Pkg != nil {
			env.pkg = fr.fn.Pkg.Pkg
		} else if fr.fn.Parent() != nil && fr.fn.Parent().Pkg != nil {
			env.pkg = fr.fn.Parent().Pkg.Pkg
		}
	}
	if env.old == nil {
		env.old = st
	}
	return env
}

var intT = types.Typ[types.Int]
var boolT = types.Typ[types.Bool]

func boolV(s string) Value { return Value{K: KBool, T: boolT, S: s} }
func intV(s string) Value  { return Value{K: KInt, T: intT, S: s} }

func (e *SpecEnv) evalBool(ex SExpr) string {
	v := e.eval(ex)
	if v.K != KBool {
		specFail("expected boolean expression, got kind %d", v.K)
	}
	return v.S
}

func (e *SpecEnv) lookupType(name string) types.Type {
	if strings.HasPrefix(name, "*") {
		if t := e.lookupType(name[1:]); t != nil {
			return types.NewPointer(t)
		}
		return nil
	}
	if strings.HasPrefix(name, "[]") {
		if t := e.lookupType(name[2:]); t != nil {
			return types.NewSlice(t)
		}
		return nil
	}
	switch name {
	case "int":
		return types.Typ[types.Int]
	case "int64":
		return types.Typ[types.Int64]
	case "uint64":
		return types.Typ[types.Uint64]
	case "uint8", "byte":
		return types.Typ[types.Uint8]
	case "bool":
		return types.Typ[types.Bool]
	case "string":
		return types.Typ[types.String]
	case "uint32":
		return types.Typ[types.Uint32]
	case "uint":
		return types.Typ[types.Uint]
	case "int32":
		return types.Typ[types.Int32]
	case "uint16":
		return types.Typ[types.Uint16]
	}
	if e.pkg == nil {
		return nil
	}
	if i := strings.LastIndex(name, "."); i >= 0 {
		pn, tn := name[:i], name[i+1:]
		for _, imp := range e.pkg.Imports() {
			if imp.Name() == pn || imp.Path() == pn {
				if o := imp.Scope().Lookup(tn); o != nil {
					if _, ok := o.(*types.TypeName); ok {
						return o.Type()
					}
				}
			}
		}
		// any loaded package with that name
		for _, p := range e.x.prog.byPath {
			if p.Types.Name() == pn || p.Types.Path() == pn {
				if o := p.Types.Scope().Lookup(tn); o != nil {
					if _, ok := o.(*types.TypeName); ok {
						return o.Type()
					}
				}
			}
		}
		return nil
	}
	if o := e.pkg.Scope().Lookup(name); o != nil {
		if _, ok := o.(*types.TypeName); ok {
			return o.Type()
		}
	}
	return nil
}

// sortOfName maps a spec type name to (sort, kind, go type).
func (e *SpecEnv) sortOfName(name string) (string, Kind, types.Type) {
	switch name {
	case "", "int", "Int":
		return sInt, KInt, intT
	case "byte", "uint8":
		return sBV8, KBV8, types.Typ[types.Uint8]
	case "bool":
		return sBool, KBool, boolT
	case "string":
		return sStr, KStr, types.Typ[types.String]
	}
	if t := e.lookupType(name); t != nil {
		return e.x.tc.sortOf(t), e.x.tc.kindOf(t), t
	}
	// declared sort
	e.x.d.declareSort(name)
	return name, KOpaque, nil
}

func (e *SpecEnv) eval(ex SExpr) Value {
	x := e.x
	x.specEval++
	defer func() { x.specEval-- }()
	switch n := ex.(type) {
	case *SLit:
		v, ok := new(big.Int).SetString(n.Val, 0)
		if !ok {
			specFail("bad integer literal %q", n.Val)
		}
		return intV(intLit(v))
	case *SBool:
		if n.Val {
			return boolV(tTrue)
		}
		return boolV(tFalse)
	case *SStr:
		return Value{K: KStr, T: types.Typ[types.String], S: x.strLitLen(n.Val)}
	case *SIdent:
		return e.ident(n.Name)
	case *SSel:
		return e.selector(n)
	case *SIndex:
		return e.index(n)
	case *SSlice:
		base := e.eval(n.X)
		if base.K != KSlice {
			specFail("slice expression on non-slice")
		}
		lo, hi := "0", base.Len
		if n.Lo != nil {
			lo = e.asInt(e.eval(n.Lo))
		}
		if n.Hi != nil {
			hi = e.asInt(e.eval(n.Hi))
		}
		return Value{K: KSlice, T: base.T, Rid: base.Rid, Off: mkAdd(base.Off, lo), Len: mkSub(hi, lo), Cap: mkSub(base.Cap, lo)}
	case *SUnary:
		v := e.eval(n.X)
		switch n.Op {
		case "!":
			return boolV(mkNot(v.S))
		case "-":
			return intV(mkSub("0", e.asInt(v)))
		case "^":
			if v.K == KBV8 {
				return Value{K: KBV8, T: v.T, S: "(bvnot " + v.S + ")"}
			}
		}
		specFail("unary %s unsupported", n.Op)
	case *SBin:
		return e.binary(n)
	case *SQuant:
		return e.quant(n)
	case *SCall:
		return e.call(n)
	}
	specFail("unsupported spec expression %T", ex)
	return Value{}
}

func (e *SpecEnv) asInt(v Value) string {
	switch v.K {
	case KInt:
		return v.S
	case KBV8:
		if e.st == e.old || e.st == e.pre || e.st == e.x.entry {
			return mkB2I(v.S) // snapshot states must not receive new path facts
		}
		return e.x.b2iNamed(e.st, v.S)
	case KOpaque:
		if e.x.tc.sortOf(v.T) == sInt {
			return v.S
		}
	}
	specFail("expected integer, got kind %d (%v)", v.K, v.T)
	return ""
}

func (e *SpecEnv) ident(name string) Value {
	x := e.x
	if v, ok := e.names[name]; ok {
		return v
	}
	if name == "nil" {
		return Value{K: KRef, T: types.Typ[types.UntypedNil], S: "0"}
	}
	if name == "result" && len(e.results) >= 1 {
		return e.results[0]
	}
	if strings.HasPrefix(name, "result") && e.results != nil {
		if i, err := strconv.Atoi(name[6:]); err == nil && i < len(e.results) {
			return e.results[i]
		}
	}
	if e.sig != nil && e.results != nil {
		for i := 0; i < e.sig.Results().Len(); i++ {
			if e.sig.Results().At(i).Name() == name && i < len(e.results) {
				return e.results[i]
			}
		}
	}
	if e.st != nil {
		if v, ok := e.st.ghost[name]; ok {
			return v
		}
	}
	if e.fr != nil {
		if e.entry {
			for i, p := range e.fr.fn.Params {
				if p.Name() == name {
					return e.fr.params[i]
				}
			}
		}
		for f := e.fr; f != nil; f = f.parent {
			if pv, ok := f.vars[name]; ok {
				if pv.K == KRef {
					// heap-allocated struct variable: the variable denotes the object
					return x.load(e.st, pv, token.NoPos)
				}
				if _, alive := e.st.cells[pv.Cell]; !alive && pv.K == KPtr && pv.B == BCell {
					specFail("variable %s is not live in this state", name)
				}
				return x.load(e.st, pv, token.NoPos)
			}
			// (frames of functions executed on their bodies inside the unit: the search goes on
			// in the caller, so that a loop invariant of an inlined iteration method can speak
			// about the variables its visitor updates)
		}
	}
	// a postcondition may mention a named local of the function: its value at the return
	// (on paths where the variable was never declared the consequent is undefined)
	if e.witFr != nil && e.fr == nil {
		for f := e.witFr; f != nil; f = f.parent {
			if pv, ok := f.vars[name]; ok {
				if pv.K == KPtr && pv.B == BCell {
					if _, alive := e.st.cells[pv.Cell]; !alive {
						specFail("local-at-exit %s is not declared on this path", name)
					}
				}
				return x.load(e.st, pv, token.NoPos)
			}
			if f.fn.Parent() == nil {
				break
			}
		}
		for i, p := range e.witFr.fn.Params {
			if p.Name() == name && i < len(e.witFr.params) {
				return e.witFr.params[i]
			}
		}
		for _, b := range e.witFr.fn.Blocks {
			for _, ins := range b.Instrs {
				if a, ok := ins.(*ssa.Alloc); ok && a.Comment == name {
					specFail("local-at-exit %s is not declared on this path", name)
				}
			}
		}
	}
	if e.pkg != nil {
		if o := e.pkg.Scope().Lookup(name); o != nil {
			return e.object(o)
		}
	}
	// a spec of the unit evaluated inside an inlined function of another package
	if x.unitFn != nil && x.unitFn.Pkg != nil && x.unitFn.Pkg.Pkg != e.pkg {
		if o := x.unitFn.Pkg.Pkg.Scope().Lookup(name); o != nil {
			return e.object(o)
		}
	}
	specFail("unknown identifier %q", name)
	return Value{}
}

func (e *SpecEnv) object(o types.Object) Value {
	x := e.x
	switch o := o.(type) {
	case *types.Const:
		return e.constValue(o.Val(), o.Type())
	case *types.Var:
		if sp := x.prog.ssa.Package(o.Pkg()); sp != nil {
			if g, ok := sp.Members[o.Name()].(*ssa.Global); ok {
				return x.load(e.st, Value{K: KPtr, T: g.Type(), B: BCell, Cell: x.globalCell(g)}, token.NoPos)
			}
		}
	}
	specFail("cannot use %v in a contract", o)
	return Value{}
}

func (e *SpecEnv) constValue(c constant.Value, t types.Type) Value {
	x := e.x
	switch c.Kind() {
	case constant.Bool:
		if constant.BoolVal(c) {
			return boolV(tTrue)
		}
		return boolV(tFalse)
	case constant.Int:
		bi, _ := new(big.Int).SetString(c.ExactString(), 10)
		if x.tc.kindOf(t) == KBV8 {
			return Value{K: KBV8, T: t, S: bv8Lit(uint8(bi.Uint64()))}
		}
		return Value{K: KInt, T: t, S: intLit(bi)}
	case constant.String:
		return Value{K: KStr, T: t, S: x.strLitLen(constant.StringVal(c))}
	}
	specFail("constant kind unsupported")
	return Value{}
}

func (e *SpecEnv) selector(n *SSel) Value {
	x := e.x
	// qualified identifier pkg.Name ?
	if id, ok := n.X.(*SIdent); ok {
		if _, bound := e.names[id.Name]; !bound && e.pkg != nil && !e.isLocal(id.Name) {
			for _, imp := range e.pkg.Imports() {
				if imp.Name() == id.Name {
					if o := imp.Scope().Lookup(n.Name); o != nil {
						return e.object(o)
					}
				}
			}
			// the qualifier names the package the expression is evaluated in (an assumed
			// contract of an interface method is evaluated in the interface's package)
			if e.pkg.Name() == id.Name {
				if o := e.pkg.Scope().Lookup(n.Name); o != nil {
					return e.object(o)
				}
			}
			// ... or a package the unit's package imports
			if x.unitFn != nil && x.unitFn.Pkg != nil && x.unitFn.Pkg.Pkg != e.pkg {
				for _, imp := range x.unitFn.Pkg.Pkg.Imports() {
					if imp.Name() == id.Name {
						if o := imp.Scope().Lookup(n.Name); o != nil {
							return e.object(o)
						}
					}
				}
			}
		}
	}
	base := e.eval(n.X)
	return x.specField(e.st, base, n.Name)
}

func (e *SpecEnv) isLocal(name string) bool {
	if e.fr == nil {
		return false
	}
	for f := e.fr; f != nil; f = f.parent {
		if _, ok := f.vars[name]; ok {
			return true
		}
	}
	return false
}

func (x *Exec) specField(st *State, base Value, name string) Value {
	switch base.K {
	case KRef:
		et := pointee(base.T)
		if et == nil || !x.isStructLike(et) {
			specFail("field %s of non-struct pointer %v", name, base.T)
		}
		idx := fieldIndex(et, name)
		if idx < 0 {
			// promoted through embedded struct
			if v, ok := x.promotedField(st, base, et, name); ok {
				return v
			}
			specFail("no field %s in %v", name, et)
		}
		return x.loadField(st, base.S, et, idx)
	case KStruct:
		idx := fieldIndex(base.T, name)
		if idx < 0 {
			specFail("no field %s in %v", name, base.T)
		}
		return base.Fields[idx]
	case KPtr:
		v := x.load(st, base, token.NoPos)
		return x.specField(st, v, name)
	case KSlice:
		switch name {
		case "rid":
			return intV(base.Rid)
		case "off":
			return intV(base.Off)
		}
	}
	specFail("field %s of kind %d", name, base.K)
	return Value{}
}

func (x *Exec) promotedField(st *State, base Value, et types.Type, name string) (Value, bool) {
	stt := et.Underlying().(*types.Struct)
	for i := 0; i < stt.NumFields(); i++ {
		f := stt.Field(i)
		if !f.Embedded() {
			continue
		}
		fv := x.loadField(st, base.S, et, i)
		if fv.K == KStruct && fieldIndex(fv.T, name) >= 0 {
			return fv.Fields[fieldIndex(fv.T, name)], true
		}
		if fv.K == KRef {
			if p := pointee(fv.T); p != nil && x.isStructLike(p) && fieldIndex(p, name) >= 0 {
				return x.loadField(st, fv.S, p, fieldIndex(p, name)), true
			}
		}
	}
	return Value{}, false
}

func (e *SpecEnv) index(n *SIndex) Value {
	x := e.x
	base := e.eval(n.X)
	idx := e.eval(n.I)
	switch base.K {
	case KSlice:
		et := base.T.Underlying().(*types.Slice).Elem()
		return x.loadElem(e.st, base.Rid, mkAdd(base.Off, e.asInt(idx)), et)
	case KArray:
		at := base.T.Underlying().(*types.Array)
		v := x.tc.unpack(x, at.Elem(), mkSelect(x.arrayTerm(e.st, base), e.asInt(idx)))
		x.assumeWF(e.st, v)
		return v
	case KMap:
		mt := base.T.Underlying().(*types.Map)
		present, val := x.mapGet(e.st, base, e.coerceKey(idx, mt.Key()))
		// Go semantics: the zero value when the key is absent
		return x.iteValue(e.st, present, val, x.tc.zero(x, mt.Elem()))
	case KStr:
		x.d.fun("strat", []string{sStr, sInt}, sBV8)
		return Value{K: KBV8, T: types.Typ[types.Uint8], S: "(strat " + base.S + " " + e.asInt(idx) + ")"}
	}
	specFail("index on kind %d", base.K)
	return Value{}
}

func (e *SpecEnv) coerceKey(k Value, kt types.Type) Value {
	want := e.x.tc.kindOf(kt)
	if k.K == want {
		return k
	}
	if want == KBV8 && k.K == KInt {
		return Value{K: KBV8, T: kt, S: e.x.i2b(e.st, k.S)}
	}
	if want == KInt && k.K == KBV8 {
		return Value{K: KInt, T: kt, S: mkB2I(k.S)}
	}
	return k
}

func (e *SpecEnv) binary(n *SBin) Value {
	x := e.x
	switch n.Op {
	case "&&":
		return boolV(mkAnd(e.evalBool(n.X), e.evalBool(n.Y)))
	case "||":
		return boolV(mkOr(e.evalBool(n.X), e.evalBool(n.Y)))
	case "==>":
		ant := e.evalBool(n.X)
		if ant == tFalse {
			return boolV(tTrue)
		}
		// the consequent may mention the dynamic value of an interface that is
		// only known on the paths where the antecedent can hold; elsewhere it
		// becomes an unconstrained proposition (weaker as assumption, not
		// provable as goal unless the antecedent is refuted)
		cons := func() (s string) {
			defer func() {
				if r := recover(); r != nil {
					if se, ok := r.(*SpecError); ok && (strings.Contains(se.Msg, "dynamic value") || strings.Contains(se.Msg, "is not live in this state") || strings.Contains(se.Msg, "local-at-exit")) && x.underBinder == 0 {
						s = x.d.fresh("undef", sBool)
						return
					}
					panic(r)
				}
			}()
			return e.evalBool(n.Y)
		}()
		return boolV(mkImp(ant, cons))
	case "<==>":
		a, b := e.evalBool(n.X), e.evalBool(n.Y)
		if strings.Contains(a, "(exists ") || strings.Contains(a, "(forall ") || strings.Contains(b, "(exists ") || strings.Contains(b, "(forall ") {
			// a Boolean equality with a quantified side defeats the solvers' quantifier
			// handling (z3 does not derive the universal from `(not r)`, `(= r (exists ..))`)
			return boolV(mkAnd(mkImp(a, b), mkImp(b, a)))
		}
		return boolV(mkEq(a, b))
	}
	a := e.eval(n.X)
	b := e.eval(n.Y)
	switch n.Op {
	case "==", "!=":
		eq := e.specEq(a, b)
		if n.Op == "!=" {
			eq = mkNot(eq)
		}
		return boolV(eq)
	case "<", "<=", ">", ">=":
		if a.K == KReal || b.K == KReal {
			return boolV("(" + n.Op + " " + a.S + " " + b.S + ")")
		}
		if a.K == KBV8 && b.K == KBV8 {
			f := map[string]string{"<": "bvult", "<=": "bvule", ">": "bvugt", ">=": "bvuge"}[n.Op]
			return boolV("(" + f + " " + a.S + " " + b.S + ")")
		}
		return boolV(mkCmp(n.Op, e.asInt(a), e.asInt(b)))
	case "+":
		if a.K == KStr && b.K == KStr {
			x.d.fun("strcat", []string{sStr, sStr}, sStr)
			return Value{K: KStr, T: a.T, S: "(strcat " + a.S + " " + b.S + ")"}
		}
		return intV(mkAdd(e.asInt(a), e.asInt(b)))
	case "-":
		return intV(mkSub(e.asInt(a), e.asInt(b)))
	case "*":
		return intV(mkMul(e.asInt(a), e.asInt(b)))
	case "/":
		// mathematical floor division for non-negative operands (spec use)
		return intV("(div " + e.asInt(a) + " " + e.asInt(b) + ")")
	case "%":
		return intV("(mod " + e.asInt(a) + " " + e.asInt(b) + ")")
	case "&", "|", "^", "&^":
		if a.K == KBV8 || b.K == KBV8 {
			as, bs := e.asBV8(a), e.asBV8(b)
			f := map[string]string{"&": "bvand", "|": "bvor", "^": "bvxor"}[n.Op]
			if n.Op == "&^" {
				return Value{K: KBV8, T: types.Typ[types.Uint8], S: "(bvand " + as + " (bvnot " + bs + "))"}
			}
			return Value{K: KBV8, T: types.Typ[types.Uint8], S: "(" + f + " " + as + " " + bs + ")"}
		}
		if n.Op == "&" {
			return intV(x.bitand(e.st, a.S, b.S, 64, false))
		}
	case "<<", ">>":
		if a.K == KBV8 {
			cb := e.asBV8(b)
			f := "bvshl"
			if n.Op == ">>" {
				f = "bvlshr"
			}
			return Value{K: KBV8, T: a.T, S: "(" + f + " " + a.S + " " + cb + ")"}
		}
		cnt := e.asInt(b)
		var p string
		if v, ok := isIntLit(cnt); ok {
			p = intLit(pow2(int(v.Int64())))
		} else {
			x.needPow2()
			p = "(pow2 " + cnt + ")"
		}
		if n.Op == "<<" {
			return intV(mkMul(e.asInt(a), p))
		}
		return intV("(div " + e.asInt(a) + " " + p + ")")
	}
	specFail("binary %s unsupported on kinds %d,%d", n.Op, a.K, b.K)
	return Value{}
}

func (e *SpecEnv) asBV8(v Value) string {
	switch v.K {
	case KBV8:
		return v.S
	case KInt:
		if lit, ok := isIntLit(v.S); ok {
			return bv8Lit(uint8(new(big.Int).Mod(lit, big.NewInt(256)).Uint64()))
		}
		// no fresh constants here: the term may sit under a binder
		return "((_ int2bv 8) " + v.S + ")"
	}
	specFail("expected byte")
	return ""
}

func (e *SpecEnv) specEq(a, b Value) string {
	x := e.x
	// nil comparisons
	if a.K == KRef && a.S == "0" && a.T == types.Typ[types.UntypedNil] {
		a, b = b, a
	}
	if b.K == KRef && b.S == "0" && b.T == types.Typ[types.UntypedNil] {
		switch a.K {
		case KSlice:
			return mkEq(a.Rid, "0")
		case KRef, KMap, KIface, KChan:
			return mkEq(a.S, "0")
		case KFunc:
			if a.Fn != nil {
				return tFalse
			}
			return mkEq(a.S, "0")
		case KPtr:
			return tFalse
		case KOpaque:
			// interface values of opaque external types (context.Context ...) are Int identities
			if a.Sort == sInt || a.Sort == "" {
				return mkEq(a.S, "0")
			}
		}
		specFail("nil comparison on kind %d", a.K)
	}
	if a.K == KBV8 && b.K == KInt {
		if v, ok := isIntLit(b.S); ok && v.Sign() >= 0 && v.Cmp(big.NewInt(256)) < 0 {
			return mkEq(a.S, bv8Lit(uint8(v.Int64())))
		}
		return mkEq(mkB2I(a.S), b.S)
	}
	if a.K == KInt && b.K == KBV8 {
		return e.specEq(b, a)
	}
	if a.K == KOpaque && b.K == KInt || a.K == KInt && b.K == KOpaque {
		return mkEq(a.S, b.S)
	}
	if a.K != b.K {
		specFail("comparison of different kinds %d / %d", a.K, b.K)
	}
	if a.K == KOpaque && strings.HasPrefix(a.S, "(seq ") && strings.HasPrefix(b.S, "(seq ") {
		x.needSeqExt() // equality of byte-sequence abstractions is extensional
	}
	if a.K == KSlice {
		// identity of slices (same region window)
		return mkAnd(mkEq(a.Rid, b.Rid), mkEq(a.Off, b.Off), mkEq(a.Len, b.Len))
	}
	return x.valueEq(e.st, a, b)
}

func (e *SpecEnv) quant(n *SQuant) Value {
	x := e.x
	env := e
	var binders, boundNames []string
	for _, v := range n.Vars {
		sort, kind, gt := e.sortOfName(v.Type)
		// unique bound name to avoid capture
		x.d.n++
		bn := fmt.Sprintf("%s!q%d", v.Name, x.d.n)
		boundNames = append(boundNames, bn)
		binders = append(binders, "("+bn+" "+sort+")")
		var val Value
		if gt != nil {
			val = x.tc.unpack(nil, gt, bn)
			val.T = gt
		} else {
			val = Value{K: kind, S: bn}
		}
		env = env.bind(v.Name, val)
	}
	x.underBinder++
	body := func() string {
		defer func() { x.underBinder-- }()
		return env.evalBool(n.Body)
	}()
	q := "forall"
	if !n.Forall {
		q = "exists"
	}
	if body == tTrue || body == tFalse {
		return boolV(body)
	}
	qt := "(" + q + " (" + strings.Join(binders, " ") + ") " + body + ")"
	if pats := autoPatterns(body, boundNames); pats != "" && os.Getenv("GOVC_NOPAT") == "" {
		qt = "(" + q + " (" + strings.Join(binders, " ") + ") (! " + body + pats + "))"
	}
	if !n.Forall && len(n.Vars) == 1 {
		// (exists k. P(k)) is equivalent to itself or-ed with instances at
		// candidate witnesses: integer locals live in the frame.
		if _, kind, _ := e.sortOfName(n.Vars[0].Type); kind == KInt {
			var ds []string
			for _, w := range e.witnesses() {
				ds = append(ds, e.bind(n.Vars[0].Name, intV(w)).evalBool(n.Body))
				if len(ds) >= 14 {
					break
				}
			}
			if len(ds) > 0 {
				return boolV(mkOr(append(ds, qt)...))
			}
		}
	}
	return boolV(qt)
}

func (e *SpecEnv) call(n *SCall) Value {
	x := e.x
	name := strings.TrimPrefix(n.Fn, ".")
	switch name {
	case "old":
		if e.old == nil {
			specFail("old() not available here")
		}
		oe := e.with(e.old)
		oe.entry = true
		if e.oldNames != nil {
			oe.names = e.oldNames
		}
		return oe.eval(n.Args[0])
	case "pre":
		if e.pre == nil {
			specFail("pre() only inside loop and iteration invariants")
		}
		pe := e.with(e.pre)
		if e.preNames != nil {
			pe.names = e.preNames
		}
		return pe.eval(n.Args[0])
	case "len":
		return intV(x.lenOf(e.st, e.eval(n.Args[0])))
	case "cap":
		v := e.eval(n.Args[0])
		if v.K == KSlice {
			return intV(v.Cap)
		}
		specFail("cap of non-slice")
	case "ite":
		c := e.evalBool(n.Args[0])
		a, b := e.eval(n.Args[1]), e.eval(n.Args[2])
		if a.K == KInt && b.K == KBV8 {
			b = intV(mkB2I(b.S))
		}
		if a.K == KBV8 && b.K == KInt {
			a = intV(mkB2I(a.S))
		}
		return x.iteValue(e.st, c, a, b)
	case "min", "max":
		a, b := e.asInt(e.eval(n.Args[0])), e.asInt(e.eval(n.Args[1]))
		if name == "min" {
			return intV(mkIte(mkCmp("<=", a, b), a, b))
		}
		return intV(mkIte(mkCmp(">=", a, b), a, b))
	case "int", "int64", "uint64", "uint":
		return intV(e.asInt(e.eval(n.Args[0])))
	case "byte", "uint8":
		return Value{K: KBV8, T: types.Typ[types.Uint8], S: e.asBV8(e.eval(n.Args[0]))}
	case "bit":
		// bit(b, k): bit k of byte b, k counted from the least significant bit
		b := e.asBV8(e.eval(n.Args[0]))
		k := e.eval(n.Args[1])
		if lit, ok := isIntLit(e.asInt(k)); ok {
			i := lit.Int64()
			return boolV(fmt.Sprintf("(= #b1 ((_ extract %d %d) %s))", i, i, b))
		}
		ki := e.asInt(k)
		var cs []string
		for i := 0; i < 8; i++ {
			cs = append(cs, mkAnd(mkEq(ki, intLit64(int64(i))), fmt.Sprintf("(= #b1 ((_ extract %d %d) %s))", i, i, b)))
		}
		return boolV(mkOr(cs...))
	case "present":
		m := e.eval(n.Args[0])
		if m.K != KMap {
			specFail("present(): not a map")
		}
		p, _ := x.mapGet(e.st, m, e.coerceKey(e.eval(n.Args[1]), m.T.Underlying().(*types.Map).Key()))
		return boolV(p)
	case "visited":
		if e.fr == nil || e.fr.lastIter == "" {
			specFail("visited(): no map iteration in scope")
		}
		name, sort := x.iterHeap(e.fr.lastIterK)
		h := x.heapTerm(e.st, name, sort)
		k := e.coerceKey(e.eval(n.Args[0]), e.fr.lastIterK)
		return boolV(mkSelect(mkSelect(h, e.fr.lastIter), x.keyTerm(e.st, k)))
	case "held":
		key := x.lockKey(e.eval(n.Args[0]))
		_, ok := e.st.held[key]
		if ok {
			return boolV(tTrue)
		}
		return boolV(tFalse)
	case "locked":
		// locked(obj): a mutex that is a field of *obj is held
		v := e.eval(n.Args[0])
		if v.K != KRef {
			specFail("locked(): not a pointer to a struct")
		}
		return boolV(x.lockedTerm(e.st, v.S))
	case "lockedw":
		// lockedw(obj): a mutex that is a field of *obj is held exclusively (Lock, not RLock)
		v := e.eval(n.Args[0])
		if v.K != KRef {
			specFail("lockedw(): not a pointer to a struct")
		}
		var ors []string
		for _, k := range sortedKeys(e.st.heldRef) {
			if e.st.held[k] != "w" {
				continue
			}
			r := e.st.heldRef[k]
			if r == v.S {
				return boolV(tTrue)
			}
			ors = append(ors, mkEq(r, v.S))
		}
		if len(ors) == 0 {
			return boolV(tFalse)
		}
		return boolV(mkOr(ors...))
	case "sprintf":
		// sprintf(format, a, ...): what the model of fmt.Sprintf answers for these operands
		if len(n.Args) < 1 || len(n.Args) > 4 {
			specFail("sprintf(format, up to three operands)")
		}
		f := e.eval(n.Args[0])
		terms, sorts := []string{f.S}, []string{sStr}
		for _, a := range n.Args[1:] {
			v := e.eval(a)
			switch v.K {
			case KRef, KInt, KStr, KBool, KBV8, KOpaque:
			default:
				specFail("sprintf: operand is not a scalar")
			}
			fnn := "ifaceOf$" + sanitize(x.tc.sortOf(v.T)) + "$" + sanitize(types.TypeString(v.T, nil))
			x.d.fun(fnn, []string{x.tc.sortOf(v.T)}, sInt)
			terms = append(terms, "("+fnn+" "+v.S+")")
			sorts = append(sorts, sInt)
		}
		name := fmt.Sprintf("pure.fmt.Sprintf.%d", len(n.Args)-1)
		x.d.fun(name, sorts, sStr)
		return Value{K: KStr, T: types.Typ[types.String], S: "(" + name + " " + strings.Join(terms, " ") + ")"}
	case "heldw":
		key := x.lockKey(e.eval(n.Args[0]))
		if e.st.held[key] == "w" {
			return boolV(tTrue)
		}
		return boolV(tFalse)
	case "fresh":
		v := e.eval(n.Args[0])
		ref := v.S
		if v.K == KSlice {
			ref = v.Rid
		}
		return boolV(mkCmp(">=", ref, e.old.alloc))
	case "freshpre":
		// allocated since the pre() state (loop entry / start of an iteration by a callee)
		if e.pre == nil {
			specFail("freshpre() only inside loop and iteration invariants")
		}
		v := e.eval(n.Args[0])
		ref := v.S
		if v.K == KSlice {
			ref = v.Rid
		}
		return boolV(mkCmp(">=", ref, e.pre.alloc))
	case "allocated":
		v := e.eval(n.Args[0])
		ref := v.S
		if v.K == KSlice {
			ref = v.Rid
		}
		return boolV(mkAnd(mkCmp("<", "0", ref), mkCmp("<", ref, e.st.alloc)))
	case "bigval":
		v := e.eval(n.Args[0])
		if v.K == KOpaque {
			return intV(v.S) // a big.Int value (e.g. one held in the state store)
		}
		return intV(x.bigVal(e.st, v.S))
	case "ref":
		v := e.eval(n.Args[0])
		switch v.K {
		case KRef, KMap, KIface, KChan:
			return intV(v.S)
		case KSlice:
			return intV(v.Rid)
		case KFunc:
			if v.Fn == nil && v.S != "" {
				return intV(v.S) // identity of a function value held in a variable or field
			}
		}
		specFail("ref() of kind %d", v.K)
	case "seq":
		v := e.eval(n.Args[0])
		return x.seqOf(e.st, v)
	case "isnil":
		v := e.eval(n.Args[0])
		return boolV(e.specEq(v, Value{K: KRef, T: types.Typ[types.UntypedNil], S: "0"}))
	case "errIs":
		a, b := e.eval(n.Args[0]), e.eval(n.Args[1])
		return boolV(x.errIs(e.st, a.S, b.S))
	case "deref":
		v := e.eval(n.Args[0])
		if v.K == KIface {
			if v.Dyn == nil {
				specFail("deref(): dynamic value of the interface is not known here")
			}
			v = *v.Dyn
		}
		return x.load(e.st, v, token.NoPos)
	case "head", "tail":
		// head(d, n) / tail(d, n): first n bytes / everything after the first n bytes of a byte sequence
		d := e.eval(n.Args[0])
		k := e.asInt(e.eval(n.Args[1]))
		x.needSeqSlice()
		f := "seqhead"
		if name == "tail" {
			f = "seqtail"
		}
		return Value{K: KOpaque, Sort: "Bytes", S: "(" + f + " " + d.S + " " + k + ")"}
	case "dyn":
		// dyn(x): the concrete value held by an interface (when statically known)
		v := e.eval(n.Args[0])
		if v.K != KIface || v.Dyn == nil {
			specFail("dyn(): dynamic value of the interface is not known here")
		}
		return *v.Dyn
	case "stored":
		// stored(store, key): the abstract state store holds key
		s, k := e.eval(n.Args[0]), e.eval(n.Args[1])
		return boolV(x.ssPresent(e.st, s.S, k.S))
	case "storedval":
		// storedval(store, key, T): the value of Go type T stored under key
		s, k := e.eval(n.Args[0]), e.eval(n.Args[1])
		tname := ""
		switch id := n.Args[2].(type) {
		case *SIdent:
			tname = id.Name
		case *SSel:
			if p, ok := id.X.(*SIdent); ok {
				tname = p.Name + "." + id.Name
			}
		}
		if tname == "" {
			specFail("storedval(store, key, TypeName)")
		}
		t := e.lookupType(tname)
		if t == nil {
			specFail("storedval: unknown type %s", tname)
		}
		return x.ssValue(e.st, s.S, k.S, t)
	case "pure":
		// pure("callee key", args...): the uninterpreted function that models
		// a deterministic effect-free callee (same symbol the executor uses)
		ks, ok := n.Args[0].(*SStr)
		if !ok {
			specFail("pure(\"key\", args...)")
		}
		var args []Value
		for _, a := range n.Args[1:] {
			args = append(args, e.eval(a))
		}
		sig := x.sigOfKey(ks.Val)
		if sig == nil {
			specFail("pure: cannot resolve %q", ks.Val)
		}
		res, ok2 := x.pureUF(e.st, ks.Val, sig, args)
		if !ok2 {
			specFail("pure: %q is not modelled as an uninterpreted function for these arguments", ks.Val)
		}
		return res[0]
	case "model":
		// model("callee key", args...): result of a built-in model of a pure library function
		ks, ok := n.Args[0].(*SStr)
		if !ok {
			specFail("model(\"key\", args...)")
		}
		if x.underBinder > 0 {
			specFail("model() cannot be used under a quantifier")
		}
		var args []Value
		for _, a := range n.Args[1:] {
			args = append(args, e.eval(a))
		}
		fn := x.prog.findFunc(ks.Val)
		m, okm := models[ks.Val]
		if fn == nil || !okm {
			specFail("model: no built-in model for %q", ks.Val)
		}
		outs := m(x, e.st, nil, fn, args, token.NoPos)
		if len(outs) != 1 || len(outs[0].results) == 0 {
			specFail("model: %q is not a single-result function", ks.Val)
		}
		return outs[0].results[0]
	}
	// user spec function
	if sf := x.lookupSpec(name); sf != nil {
		return e.applySpec(sf, n.Args)
	}
	specFail("unknown spec function %q", name)
	return Value{}
}

func (e *SpecEnv) applySpec(sf *SpecFunc, argEx []SExpr) Value {
	x := e.x
	if len(argEx) != len(sf.Params) {
		specFail("spec func %s: %d args, want %d", sf.Name, len(argEx), len(sf.Params))
	}
	var args []Value
	for _, a := range argEx {
		args = append(args, e.eval(a))
	}
	if sf.Body != nil {
		x.specDepth++
		if x.specDepth > 40 {
			specFail("spec function recursion too deep in %s", sf.Name)
		}
		defer func() { x.specDepth-- }()
		wf := e.witFr
		if wf == nil {
			wf = e.fr
		}
		env := &SpecEnv{x: x, st: e.st, old: e.old, pre: e.pre, names: map[string]Value{}, pkg: e.pkg, fr: nil, witFr: wf, inWitness: e.inWitness}
		// large integer arguments are bound by an SMT let instead of being copied into
		// every occurrence of the parameter in the body
		var lets []string
		bound := make([]Value, len(args))
		copy(bound, args)
		for i := range bound {
			if bound[i].K == KInt && len(bound[i].S) > 60 && strings.Contains(bound[i].S, "(") {
				x.d.n++
				ln := fmt.Sprintf("a!l%d", x.d.n)
				lets = append(lets, "("+ln+" "+bound[i].S+")")
				bound[i].S = ln
			}
		}
		for i, p := range sf.Params {
			env.names[p.Name] = bound[i]
		}
		r := env.eval(sf.Body)
		if len(lets) == 0 {
			return r
		}
		if (r.K == KInt || r.K == KBool || r.K == KBV8) && r.S != "" {
			r.S = "(let (" + strings.Join(lets, " ") + ") " + r.S + ")"
			return r
		}
		for i, p := range sf.Params {
			env.names[p.Name] = args[i]
		}
		return env.eval(sf.Body)
	}
	// uninterpreted
	var sorts, terms []string
	for i, p := range sf.Params {
		s, k, _ := e.sortOfName(p.Type)
		a := args[i]
		if k == KInt && a.K == KBV8 {
			a = intV(mkB2I(a.S))
		}
		if k == KBV8 && a.K == KInt {
			a = Value{K: KBV8, S: x.i2b(e.st, a.S)}
		}
		sorts = append(sorts, s)
		terms = append(terms, x.tc.pack(x, a))
	}
	rs, rk, rt := e.sortOfName(sf.Ret)
	fname := "spec." + sf.Name
	x.d.fun(fname, sorts, rs)
	t := fname
	if len(terms) > 0 {
		t = "(" + fname + " " + strings.Join(terms, " ") + ")"
	}
	if rt != nil {
		v := x.tc.unpack(nil, rt, t)
		return v
	}
	return Value{K: rk, S: t}
}

// staticTypeOf gives the Go type of a simple object expression (parameter
// name or field path) without a state; used by the write-set scan.
func (e *SpecEnv) staticTypeOf(ex SExpr, fn *ssa.Function, c *FuncContract) types.Type {
	switch n := ex.(type) {
	case *SIdent:
		if fn != nil {
			for _, p := range fn.Params {
				if p.Name() == n.Name {
					return p.Type()
				}
			}
		}
		return nil
	case *SSel:
		bt := e.staticTypeOf(n.X, fn, c)
		if bt == nil {
			return nil
		}
		if p := pointee(bt); p != nil {
			bt = p
		}
		idx := fieldIndex(bt, n.Name)
		if idx < 0 {
			return nil
		}
		return bt.Underlying().(*types.Struct).Field(idx).Type()
	}
	return nil
}

package main

// Contract language: lexer, parser and contract database.
//
// Contracts live in comment-only files (//go:build verif) inside the package
// they describe, and in /verif/contracts/assumed/*.spec for external or
// trusted functions.  Lines start with "//@".

import (
	"fmt"
	"os"
	"path/filepath"
	"strings"
	"unicode"
)

// ---------------------------------------------------------------------------
// expression AST

type SExpr interface{}

type (
	SLit   struct{ Val string }           // integer literal (decimal / 0x)
	SBool  struct{ Val bool }             // true/false
	SStr   struct{ Val string }           // string literal
	SIdent struct{ Name string }          // x, pkg.Name handled as SSel
	SSel   struct {
		X    SExpr
		Name string
	}
	SIndex struct{ X, I SExpr }
	SSlice struct{ X, Lo, Hi SExpr }
	SCall  struct {
		Fn   string
		Args []SExpr
	}
	SUnary struct {
		Op string
		X  SExpr
	}
	SBin struct {
		Op   string
		X, Y SExpr
	}
	SQuant struct {
		Forall bool
		Vars   []SVar
		Body   SExpr
	}
	SVar struct{ Name, Type string }
)

type tok struct {
	kind string // ident, int, str, op, eof
	text string
}

func lex(s string) ([]tok, error) {
	var toks []tok
	i := 0
	for i < len(s) {
		c := rune(s[i])
		switch {
		case unicode.IsSpace(c):
			i++
		case unicode.IsLetter(c) || c == '_' || c == '$':
			j := i
			for j < len(s) && (unicode.IsLetter(rune(s[j])) || unicode.IsDigit(rune(s[j])) || s[j] == '_' || s[j] == '$') {
				j++
			}
			toks = append(toks, tok{"ident", s[i:j]})
			i = j
		case unicode.IsDigit(c):
			j := i
			for j < len(s) && (unicode.IsDigit(rune(s[j])) || unicode.IsLetter(rune(s[j]))) {
				j++
			}
			toks = append(toks, tok{"int", s[i:j]})
			i = j
		case c == '"':
			j := i + 1
			for j < len(s) && s[j] != '"' {
				j++
			}
			if j >= len(s) {
				return nil, fmt.Errorf("unterminated string")
			}
			toks = append(toks, tok{"str", s[i+1 : j]})
			i = j + 1
		default:
			ops := []string{"<==>", "==>", "::", "==", "!=", "<=", ">=", "&&", "||", "<<", ">>", "&^", "+", "-", "*", "/", "%", "<", ">", "!", "&", "|", "^", "(", ")", "[", "]", ",", ".", ":", "?"}
			matched := false
			for _, op := range ops {
				if strings.HasPrefix(s[i:], op) {
					toks = append(toks, tok{"op", op})
					i += len(op)
					matched = true
					break
				}
			}
			if !matched {
				return nil, fmt.Errorf("unexpected character %q", c)
			}
		}
	}
	toks = append(toks, tok{"eof", ""})
	return toks, nil
}

type parser struct {
	toks []tok
	pos  int
}

func (p *parser) peek() tok { return p.toks[p.pos] }
func (p *parser) next() tok { t := p.toks[p.pos]; p.pos++; return t }
func (p *parser) isOp(op string) bool {
	t := p.peek()
	return t.kind == "op" && t.text == op
}
func (p *parser) expectOp(op string) error {
	if !p.isOp(op) {
		return fmt.Errorf("expected %q, got %q", op, p.peek().text)
	}
	p.pos++
	return nil
}

func parseSpecExpr(s string) (SExpr, error) {
	toks, err := lex(s)
	if err != nil {
		return nil, err
	}
	p := &parser{toks: toks}
	e, err := p.parseExpr()
	if err != nil {
		return nil, err
	}
	if p.peek().kind != "eof" {
		return nil, fmt.Errorf("trailing input at %q", p.peek().text)
	}
	return e, nil
}

// precedence (low → high): <==>, ==>, ||, &&, comparison, + - | ^, * / % << >> & &^, unary
func (p *parser) parseExpr() (SExpr, error) {
	t := p.peek()
	if t.kind == "ident" && (t.text == "forall" || t.text == "exists") {
		p.next()
		var vars []SVar
		for {
			n := p.next()
			if n.kind != "ident" {
				return nil, fmt.Errorf("quantifier: expected variable name")
			}
			v := SVar{Name: n.text}
			star := ""
			if p.isOp("*") && p.pos+1 < len(p.toks) && p.toks[p.pos+1].kind == "ident" {
				p.next() // pointer type
				star = "*"
			}
			if p.peek().kind == "ident" {
				// type, possibly qualified
				ty := star + p.next().text
				for p.isOp(".") {
					p.next()
					ty += "." + p.next().text
				}
				v.Type = ty
			}
			vars = append(vars, v)
			if p.isOp(",") {
				p.next()
				continue
			}
			break
		}
		if err := p.expectOp("::"); err != nil {
			return nil, err
		}
		body, err := p.parseExpr()
		if err != nil {
			return nil, err
		}
		// propagate types backwards: "i, j int" style
		for i := len(vars) - 2; i >= 0; i-- {
			if vars[i].Type == "" {
				vars[i].Type = vars[i+1].Type
			}
		}
		return &SQuant{Forall: t.text == "forall", Vars: vars, Body: body}, nil
	}
	return p.parseIff()
}

func (p *parser) parseIff() (SExpr, error) {
	x, err := p.parseImp()
	if err != nil {
		return nil, err
	}
	for p.isOp("<==>") {
		p.next()
		y, err := p.parseImp()
		if err != nil {
			return nil, err
		}
		x = &SBin{"<==>", x, y}
	}
	return x, nil
}

func (p *parser) parseImp() (SExpr, error) {
	x, err := p.parseOr()
	if err != nil {
		return nil, err
	}
	if p.isOp("==>") {
		p.next()
		// right assoc; allow quantifier on rhs
		var y SExpr
		if t := p.peek(); t.kind == "ident" && (t.text == "forall" || t.text == "exists") {
			y, err = p.parseExpr()
		} else {
			y, err = p.parseImp()
		}
		if err != nil {
			return nil, err
		}
		return &SBin{"==>", x, y}, nil
	}
	return x, nil
}

func (p *parser) parseOr() (SExpr, error) {
	x, err := p.parseAnd()
	if err != nil {
		return nil, err
	}
	for p.isOp("||") {
		p.next()
		y, err := p.parseAnd()
		if err != nil {
			return nil, err
		}
		x = &SBin{"||", x, y}
	}
	return x, nil
}

func (p *parser) parseAnd() (SExpr, error) {
	x, err := p.parseCmp()
	if err != nil {
		return nil, err
	}
	for p.isOp("&&") {
		p.next()
		var y SExpr
		if t := p.peek(); t.kind == "ident" && (t.text == "forall" || t.text == "exists") {
			y, err = p.parseExpr()
		} else {
			y, err = p.parseCmp()
		}
		if err != nil {
			return nil, err
		}
		x = &SBin{"&&", x, y}
	}
	return x, nil
}

func (p *parser) parseCmp() (SExpr, error) {
	x, err := p.parseAddl()
	if err != nil {
		return nil, err
	}
	// chained comparisons: a <= b < c
	var res SExpr
	for {
		t := p.peek()
		if t.kind == "op" && (t.text == "==" || t.text == "!=" || t.text == "<" || t.text == "<=" || t.text == ">" || t.text == ">=") {
			p.next()
			y, err := p.parseAddl()
			if err != nil {
				return nil, err
			}
			c := &SBin{t.text, x, y}
			if res == nil {
				res = c
			} else {
				res = &SBin{"&&", res, c}
			}
			x = y
			continue
		}
		break
	}
	if res != nil {
		return res, nil
	}
	return x, nil
}

func (p *parser) parseAddl() (SExpr, error) {
	x, err := p.parseMul()
	if err != nil {
		return nil, err
	}
	for {
		t := p.peek()
		if t.kind == "op" && (t.text == "+" || t.text == "-" || t.text == "|" || t.text == "^") {
			p.next()
			y, err := p.parseMul()
			if err != nil {
				return nil, err
			}
			x = &SBin{t.text, x, y}
			continue
		}
		return x, nil
	}
}

func (p *parser) parseMul() (SExpr, error) {
	x, err := p.parseUnary()
	if err != nil {
		return nil, err
	}
	for {
		t := p.peek()
		if t.kind == "op" && (t.text == "*" || t.text == "/" || t.text == "%" || t.text == "<<" || t.text == ">>" || t.text == "&" || t.text == "&^") {
			p.next()
			y, err := p.parseUnary()
			if err != nil {
				return nil, err
			}
			x = &SBin{t.text, x, y}
			continue
		}
		return x, nil
	}
}

func (p *parser) parseUnary() (SExpr, error) {
	t := p.peek()
	if t.kind == "op" && (t.text == "!" || t.text == "-" || t.text == "^") {
		p.next()
		x, err := p.parseUnary()
		if err != nil {
			return nil, err
		}
		return &SUnary{t.text, x}, nil
	}
	return p.parsePostfix()
}

func (p *parser) parsePostfix() (SExpr, error) {
	x, err := p.parsePrimary()
	if err != nil {
		return nil, err
	}
	for {
		switch {
		case p.isOp("."):
			p.next()
			n := p.next()
			if n.kind != "ident" {
				return nil, fmt.Errorf("selector: expected name")
			}
			// qualified call pkg.F(...)
			if p.isOp("(") {
				if id, ok := x.(*SIdent); ok {
					args, err := p.parseArgs()
					if err != nil {
						return nil, err
					}
					x = &SCall{Fn: id.Name + "." + n.text, Args: args}
					continue
				}
				// method-style call x.f(args) => f(x, args)
				args, err := p.parseArgs()
				if err != nil {
					return nil, err
				}
				x = &SCall{Fn: "." + n.text, Args: append([]SExpr{x}, args...)}
				continue
			}
			x = &SSel{x, n.text}
		case p.isOp("["):
			p.next()
			var lo, hi SExpr
			if !p.isOp(":") {
				lo, err = p.parseExpr()
				if err != nil {
					return nil, err
				}
			}
			if p.isOp(":") {
				p.next()
				if !p.isOp("]") {
					hi, err = p.parseExpr()
					if err != nil {
						return nil, err
					}
				}
				if err := p.expectOp("]"); err != nil {
					return nil, err
				}
				x = &SSlice{x, lo, hi}
				continue
			}
			if err := p.expectOp("]"); err != nil {
				return nil, err
			}
			x = &SIndex{x, lo}
		default:
			return x, nil
		}
	}
}

func (p *parser) parseArgs() ([]SExpr, error) {
	if err := p.expectOp("("); err != nil {
		return nil, err
	}
	var args []SExpr
	for !p.isOp(")") {
		a, err := p.parseExpr()
		if err != nil {
			return nil, err
		}
		args = append(args, a)
		if p.isOp(",") {
			p.next()
		}
	}
	p.next()
	return args, nil
}

func (p *parser) parsePrimary() (SExpr, error) {
	t := p.next()
	switch t.kind {
	case "int":
		return &SLit{t.text}, nil
	case "str":
		return &SStr{t.text}, nil
	case "ident":
		switch t.text {
		case "true":
			return &SBool{true}, nil
		case "false":
			return &SBool{false}, nil
		}
		if p.isOp("(") {
			args, err := p.parseArgs()
			if err != nil {
				return nil, err
			}
			return &SCall{Fn: t.text, Args: args}, nil
		}
		return &SIdent{t.text}, nil
	case "op":
		if t.text == "(" {
			e, err := p.parseExpr()
			if err != nil {
				return nil, err
			}
			if err := p.expectOp(")"); err != nil {
				return nil, err
			}
			return e, nil
		}
	}
	return nil, fmt.Errorf("unexpected token %q", t.text)
}

// ---------------------------------------------------------------------------
// contract database

type Clause struct {
	Label string
	Src   string
	E     SExpr
	Needs []string // iterinv: the other iteration invariants its preservation proof may use ("-" = none); nil = all
}

// Lemma: a statement about spec functions proved once (optionally by induction over one
// integer variable, with the other variables fixed).  A lemma named like an axiom is the
// proof of that axiom; helper lemmas are visible to the lemmas stated after them.
type Lemma struct {
	Prop, Label string
	Var         string // induction variable ("" = no induction)
	Down        bool   // induction runs downwards from From
	From        SExpr
	Q           *SQuant
	Src         string
	Pkg, File   string
	Ord         int
}

type LoopSpec struct {
	Key        string // "1", "EachBin.1" …
	Invariants []Clause
	Decreases  *Clause
	Unroll     int
	Assigns    []AssignSpec // restricted heap footprint of the loop body (checked per iteration)
}

type AssignSpec struct {
	Src string
	// kinds: "nothing", "heap <name>", "field <expr>.<f>", "elems <expr>", "all"
	Kind  string
	Heap  string
	E     SExpr // object expression (for field) or slice expression (for elems)
	Field string
}

type FuncContract struct {
	Key       string // function key (see funcKey)
	File      string
	Props     []string
	Requires  []Clause
	Ensures   []Clause
	Assigns   []AssignSpec
	HasAssign bool
	Loops     map[string]*LoopSpec
	Inline    bool
	InlineCalls []string // callees inlined inside this unit only
	Trusted   bool   // contract is assumed, body not verified
	MayPanic  bool   // explicit panics allowed
	Wire      []string // parameters holding wire-decoded data (arbitrary)
	NoVerify  bool
	Pure      bool
	Notes     []string
	Lets      []LetSpec // ghost lets evaluated at entry
	CallAsserts map[string][]Clause // callee key suffix -> asserted preconditions at call sites
	Havoc     []string
	Witness   []SExpr // candidate witness expressions for existential clauses
	Extern    string  // package path for package-scoped extern contracts
	Bounded   []Clause // bounding assumptions for "bounded-" ensures
	BoundedOnly bool
	BoundN    int // loop unroll bound of the bounded run (default 4)
	DynTypes  map[string]string // result -> concrete type of an interface result
	Cuts      []CutSpec  // cut points (block contracts) in the function's own body
	Iterates  []IterSpec // parameters holding a callback that the (trusted) callee invokes any number of times
	IterInv   []Clause // closure contract: invariant over the captured variables, kept by every invocation
	IterPost  []Clause // closure contract: per-argument fact, established by the invocation and stable afterwards
}

// IterSpec: `iterates f [with <expr>]`: the callee invokes its parameter f any number of
// times; <expr> (over the callee's parameters and $x for f's own parameters) is what the
// callee guarantees about the arguments it passes.
type IterSpec struct {
	Param    string
	With     SExpr
	Covering SExpr // every argument tuple satisfying this was passed to the callback at least once ...
	Unless   SExpr // ... unless some invocation returned results satisfying this (over $result0, $result1, ...)
}

type LetSpec struct {
	Name string
	E    SExpr
}

type SpecFunc struct {
	Name   string
	Params []SVar
	Ret    string
	Body   SExpr // nil = uninterpreted
	Src    string
}

type TypeSpec struct {
	Key        string
	Invariants []Clause
	GuardedBy  map[string]string // field -> mutex field
}

type PkgContracts struct {
	Pkg     string // package path ("" for assumed)
	Opaque  map[string]string
	Funcs   map[string]*FuncContract
	Specs   map[string]*SpecFunc
	Axioms  []Clause
	Lemmas  []Clause
	LemmaList []*Lemma
	Types   map[string]*TypeSpec
	Sorts   []string
	Imports map[string]string // alias -> package path, for assumed files
}

type GhostVar struct{ Name, Type, Pkg string }

type ContractDB struct {
	Ghosts  []GhostVar
	Guarded map[string]string // "<pkgpath>.<Type>.<field>": accessed only with a mutex of the same object held
	lemmaN  int
	Externs map[string]map[string]*FuncContract // package path -> key -> contract
	Pkgs    map[string]*PkgContracts // by package path
	Funcs   map[string]*FuncContract // all, by key
	Specs   map[string]*SpecFunc     // global namespace
	Opaque  map[string]string
	Axioms  []Clause
	Lemmas  map[string][]Clause // per package
	Types   map[string]*TypeSpec
}

func newContractDB() *ContractDB {
	return &ContractDB{Externs: map[string]map[string]*FuncContract{}, Pkgs: map[string]*PkgContracts{}, Funcs: map[string]*FuncContract{}, Specs: map[string]*SpecFunc{}, Opaque: map[string]string{}, Lemmas: map[string][]Clause{}, Types: map[string]*TypeSpec{}}
}

var clauseKeywords = map[string]bool{
	"func": true, "type": true, "spec": true, "axiom": true, "lemma": true, "property": true,
	"requires": true, "ensures": true, "assigns": true, "loop": true, "inline": true,
	"invariant": true, "guarded_by": true, "opaque": true, "trusted": true, "may_panic": true,
	"wire": true, "noverify": true, "sort": true, "note": true, "let": true, "import": true,
	"pure": true, "callassert": true, "havoc": true, "witness": true, "ghost": true, "guarded": true, "extern": true, "cut": true, "iterates": true, "iterinv": true, "iterpost": true, "bounded": true, "boundedonly": true, "dyntype": true,
}

// extractContractLines pulls the "//@" lines out of a Go source or .spec file
// and joins continuation lines.
func extractContractLines(src string) []string {
	var out []string
	for _, ln := range strings.Split(src, "\n") {
		t := strings.TrimSpace(ln)
		if !strings.HasPrefix(t, "//@") {
			continue
		}
		body := strings.TrimSpace(t[3:])
		if body == "" || strings.HasPrefix(body, "#") {
			continue
		}
		first := body
		if i := strings.IndexAny(body, " \t"); i >= 0 {
			first = body[:i]
		}
		if clauseKeywords[first] {
			out = append(out, body)
		} else if len(out) > 0 {
			out[len(out)-1] += " " + body
		}
	}
	return out
}

func splitLabel(s string) (label, rest string) {
	// "name: expr" where name is an identifier-ish label
	i := strings.Index(s, ":")
	if i > 0 && !strings.HasPrefix(s[i:], "::") {
		lab := strings.TrimSpace(s[:i])
		ok := lab != ""
		for _, c := range lab {
			if !(unicode.IsLetter(c) || unicode.IsDigit(c) || c == '-' || c == '_' || c == '.') {
				ok = false
			}
		}
		if ok {
			return lab, strings.TrimSpace(s[i+1:])
		}
	}
	return "", s
}

func parseClause(s string, defLabel string) (Clause, error) {
	label, rest := splitLabel(s)
	if label == "" {
		label = defLabel
	}
	e, err := parseSpecExpr(rest)
	if err != nil {
		return Clause{}, fmt.Errorf("%v in %q", err, rest)
	}
	return Clause{Label: label, Src: rest, E: e}, nil
}

func (db *ContractDB) parseFile(pkgPath, file, src string) error {
	pc := db.Pkgs[pkgPath+"|"+file]
	if pc == nil {
		pc = &PkgContracts{Pkg: pkgPath, Opaque: map[string]string{}, Funcs: map[string]*FuncContract{}, Specs: map[string]*SpecFunc{}, Types: map[string]*TypeSpec{}, Imports: map[string]string{}}
		db.Pkgs[pkgPath+"|"+file] = pc
	}
	var curF *FuncContract
	var curT *TypeSpec
	lines := extractContractLines(src)
	qual := func(name string) string {
		// keys in package files are relative to the package
		if pkgPath == "" {
			// assumed files use alias.Name or full path
			return name
		}
		return pkgPath + "." + name
	}
	for _, ln := range lines {
		kw := ln
		rest := ""
		if i := strings.IndexAny(ln, " \t"); i >= 0 {
			kw, rest = ln[:i], strings.TrimSpace(ln[i+1:])
		}
		fail := func(err error) error { return fmt.Errorf("%s: %q: %v", file, ln, err) }
		switch kw {
		case "import":
			parts := strings.Fields(rest)
			if len(parts) == 2 {
				pc.Imports[parts[0]] = strings.Trim(parts[1], "\"")
			}
		case "opaque":
			// opaque <qualified type> [as Sort]
			parts := strings.Fields(rest)
			name := parts[0]
			sortName := "U_" + sanitize(name)
			if len(parts) == 3 && parts[1] == "as" {
				sortName = parts[2]
			}
			db.Opaque[name] = sortName
			pc.Opaque[name] = sortName
		case "sort":
			pc.Sorts = append(pc.Sorts, rest)
		case "ghost":
			// ghost <name> <type>
			parts := strings.Fields(rest)
			if len(parts) != 2 {
				return fail(fmt.Errorf("ghost <name> <type>"))
			}
			db.Ghosts = append(db.Ghosts, GhostVar{Name: parts[0], Type: parts[1], Pkg: pkgPath})
		case "guarded":
			// guarded <Type>: f1, f2, ...   (fields of a struct of this package)
			i := strings.Index(rest, ":")
			if i < 0 || pkgPath == "" {
				return fail(fmt.Errorf("guarded <Type>: field, field, ..."))
			}
			if db.Guarded == nil {
				db.Guarded = map[string]string{}
			}
			// optional " for <property>": checked only in units of that property
			fields, scope := rest[i+1:], "*"
			if j := strings.Index(fields, " for "); j >= 0 {
				fields, scope = fields[:j], strings.TrimSpace(fields[j+5:])
			}
			for _, f := range strings.Split(fields, ",") {
				db.Guarded[pkgPath+"."+strings.TrimSpace(rest[:i])+"."+strings.TrimSpace(f)] = scope
			}
		case "extern":
			// extern func <full key>: assumed contract of an external callee,
			// visible only to units of this package
			curT = nil
			key := strings.TrimSpace(strings.TrimPrefix(rest, "func"))
			if strings.HasPrefix(key, "(") && !strings.Contains(key[:strings.Index(key+")", ")")], ".") {
				// a receiver without a package path is a type of this package ("(T).M" → "(pkg.T).M");
				// left as written it would match no callee and the contract would silently never apply
				inner := key[1:strings.Index(key, ")")]
				meth := key[strings.Index(key, ")")+1:]
				if strings.HasPrefix(inner, "*") {
					key = "(*" + pkgPath + "." + inner[1:] + ")" + meth
				} else {
					key = "(" + pkgPath + "." + inner + ")" + meth
				}
			}
			curF = &FuncContract{Key: key, File: file, Loops: map[string]*LoopSpec{}, CallAsserts: map[string][]Clause{}, Trusted: true, Extern: pkgPath}
			// assumed contracts of callees are scoped by contract file: two files of one
			// package may describe the same callee at different levels of abstraction
			ek := pkgPath + "|" + file
			if db.Externs[ek] == nil {
				db.Externs[ek] = map[string]*FuncContract{}
			}
			db.Externs[ek][key] = curF
		case "func":
			curT = nil
			key := rest
			if pkgPath != "" {
				key = qual(rest)
			} else {
				for a, p := range pc.Imports {
					key = strings.Replace(key, "("+a+".", "("+p+".", 1)
					key = strings.Replace(key, "(*"+a+".", "(*"+p+".", 1)
					if strings.HasPrefix(key, a+".") {
						key = p + "." + key[len(a)+1:]
					}
				}
			}
			// "(*T).M" → "(*pkg.T).M"
			if pkgPath != "" && strings.HasPrefix(rest, "(") {
				inner := rest[1:strings.Index(rest, ")")]
				meth := rest[strings.Index(rest, ")")+1:]
				if strings.HasPrefix(inner, "*") {
					key = "(*" + pkgPath + "." + inner[1:] + ")" + meth
				} else {
					key = "(" + pkgPath + "." + inner + ")" + meth
				}
			}
			curF = &FuncContract{Key: key, File: file, Loops: map[string]*LoopSpec{}, CallAsserts: map[string][]Clause{}}
			if pkgPath == "" {
				curF.Trusted = true
			}
			if old, dup := db.Funcs[key]; dup {
				return fail(fmt.Errorf("duplicate contract for %s (also in %s)", key, old.File))
			}
			db.Funcs[key] = curF
			pc.Funcs[key] = curF
		case "type":
			curF = nil
			curT = &TypeSpec{Key: qual(rest), GuardedBy: map[string]string{}}
			db.Types[curT.Key] = curT
			pc.Types[curT.Key] = curT
		case "spec":
			// spec func name(a T, b U) R [= body]
			sf, err := parseSpecFunc(rest)
			if err != nil {
				return fail(err)
			}
			db.Specs[sf.Name] = sf
			pc.Specs[sf.Name] = sf
		case "axiom":
			c, err := parseClause(rest, fmt.Sprintf("axiom%d", len(db.Axioms)+1))
			if err != nil {
				return fail(err)
			}
			db.Axioms = append(db.Axioms, c)
			pc.Axioms = append(pc.Axioms, c)
		case "lemma":
			// lemma <Cxx> <label> [by induction on <v> up|down from <expr>]: forall ... :: body
			i := strings.Index(rest, ": forall")
			if i < 0 {
				return fail(fmt.Errorf("lemma <property> <label> [by induction on v up|down from e]: forall ... :: body"))
			}
			head, body := strings.Fields(rest[:i]), strings.TrimSpace(rest[i+1:])
			if len(head) < 2 {
				return fail(fmt.Errorf("lemma needs a property and a label"))
			}
			e, err := parseSpecExpr(body)
			if err != nil {
				return fail(err)
			}
			q, ok := e.(*SQuant)
			if !ok || !q.Forall {
				return fail(fmt.Errorf("lemma body must be a forall"))
			}
			db.lemmaN++
			lm := &Lemma{Prop: head[0], Label: head[1], Q: q, Src: body, Pkg: pkgPath, File: file, Ord: db.lemmaN}
			if len(head) > 2 {
				// by induction on v up from e
				if len(head) < 8 || head[2] != "by" || head[3] != "induction" || head[4] != "on" || (head[6] != "up" && head[6] != "down") || head[7] != "from" {
					return fail(fmt.Errorf("expected: by induction on <v> up|down from <expr>"))
				}
				lm.Var, lm.Down = head[5], head[6] == "down"
				fe, err := parseSpecExpr(strings.Join(head[8:], " "))
				if err != nil {
					return fail(err)
				}
				lm.From = fe
				found := false
				for _, v := range q.Vars {
					found = found || v.Name == lm.Var
				}
				if !found {
					return fail(fmt.Errorf("induction variable %s is not quantified", lm.Var))
				}
			}
			for _, a := range pc.Axioms {
				if a.Label == lm.Label && strings.Join(strings.Fields(a.Src), " ") != strings.Join(strings.Fields(body), " ") {
					return fail(fmt.Errorf("lemma %s proves the axiom of the same name: the two statements must be identical", lm.Label))
				}
			}
			pc.LemmaList = append(pc.LemmaList, lm)
		case "property":
			if curF != nil {
				curF.Props = append(curF.Props, strings.Fields(rest)...)
			}
		case "cut":
			// cut <callee>: [label:] <expr>   (several clauses for one callee accumulate)
			if curF == nil {
				return fail(fmt.Errorf("cut outside func"))
			}
			i := strings.Index(rest, ":")
			if i < 0 {
				return fail(fmt.Errorf("cut <callee>: <expr>"))
			}
			callee := strings.TrimSpace(rest[:i])
			c, err := parseClause(strings.TrimSpace(rest[i+1:]), fmt.Sprintf("%d", len(curF.Cuts)+1))
			if err != nil {
				return fail(err)
			}
			found := false
			for k := range curF.Cuts {
				if curF.Cuts[k].Callee == callee {
					curF.Cuts[k].Cl = append(curF.Cuts[k].Cl, c)
					found = true
				}
			}
			if !found {
				curF.Cuts = append(curF.Cuts, CutSpec{Callee: callee, Cl: []Clause{c}})
			}
		case "iterates":
			if curF == nil {
				return fail(fmt.Errorf("iterates outside func"))
			}
			// iterates <param> [with <expr>] [covering <expr>] [unless <expr>]
			is := IterSpec{}
			parts := map[string]string{}
			cur, body := "param", rest
			for {
				best, bk := -1, ""
				for _, kw := range []string{" with ", " covering ", " unless "} {
					if i := strings.Index(body, kw); i >= 0 && (best < 0 || i < best) {
						best, bk = i, kw
					}
				}
				if best < 0 {
					parts[cur] = strings.TrimSpace(body)
					break
				}
				parts[cur] = strings.TrimSpace(body[:best])
				cur, body = strings.TrimSpace(bk), body[best+len(bk):]
			}
			is.Param = parts["param"]
			for k, dst := range map[string]*SExpr{"with": &is.With, "covering": &is.Covering, "unless": &is.Unless} {
				if src, ok := parts[k]; ok {
					e, err := parseSpecExpr(src)
					if err != nil {
						return fail(err)
					}
					*dst = e
				}
			}
			curF.Iterates = append(curF.Iterates, is)
		case "iterpost":
			// callback contract: a fact about the arguments of one invocation that holds after
			// it and is kept by every later invocation (used through the callee's `covering`)
			if curF == nil {
				return fail(fmt.Errorf("iterpost outside func"))
			}
			c, err := parseClause(rest, fmt.Sprintf("%d", len(curF.IterPost)+1))
			if err != nil {
				return fail(err)
			}
			curF.IterPost = append(curF.IterPost, c)
		case "iterinv":
			if curF == nil {
				return fail(fmt.Errorf("iterinv outside func"))
			}
			// iterinv <label> [needs a, b | needs -]: <expr>
			var needs []string
			if i := strings.Index(rest, ":"); i > 0 && !strings.HasPrefix(rest[i:], "::") {
				if j := strings.Index(rest[:i], " needs "); j > 0 {
					for _, n := range strings.Split(rest[j+7:i], ",") {
						needs = append(needs, strings.TrimSpace(n))
					}
					rest = rest[:j] + rest[i:]
				}
			}
			c, err := parseClause(rest, fmt.Sprintf("%d", len(curF.IterInv)+1))
			if err != nil {
				return fail(err)
			}
			c.Needs = needs
			curF.IterInv = append(curF.IterInv, c)
		case "requires", "ensures":
			if curF == nil {
				return fail(fmt.Errorf("clause outside func"))
			}
			n := len(curF.Requires)
			if kw == "ensures" {
				n = len(curF.Ensures)
			}
			c, err := parseClause(rest, fmt.Sprintf("%d", n+1))
			if err != nil {
				return fail(err)
			}
			if kw == "requires" {
				curF.Requires = append(curF.Requires, c)
			} else {
				curF.Ensures = append(curF.Ensures, c)
			}
		case "let":
			if curF == nil {
				return fail(fmt.Errorf("let outside func"))
			}
			i := strings.Index(rest, "=")
			if i < 0 {
				return fail(fmt.Errorf("let needs '='"))
			}
			e, err := parseSpecExpr(strings.TrimSpace(rest[i+1:]))
			if err != nil {
				return fail(err)
			}
			curF.Lets = append(curF.Lets, LetSpec{Name: strings.TrimSpace(rest[:i]), E: e})
		case "callassert":
			// callassert <calleeSuffix> label: expr
			if curF == nil {
				return fail(fmt.Errorf("callassert outside func"))
			}
			i := strings.IndexAny(rest, " \t")
			if i < 0 {
				return fail(fmt.Errorf("callassert needs callee and expr"))
			}
			callee := rest[:i]
			c, err := parseClause(strings.TrimSpace(rest[i+1:]), fmt.Sprintf("%d", len(curF.CallAsserts[callee])+1))
			if err != nil {
				return fail(err)
			}
			curF.CallAsserts[callee] = append(curF.CallAsserts[callee], c)
		case "assigns":
			if curF == nil {
				return fail(fmt.Errorf("assigns outside func"))
			}
			curF.HasAssign = true
			for _, item := range splitTopLevelCommas(rest) {
				as, err := parseAssign(strings.TrimSpace(item))
				if err != nil {
					return fail(err)
				}
				curF.Assigns = append(curF.Assigns, as)
			}
		case "bounded":
			// bounded <expr>: extra entry assumption under which the ensures
			// clauses labelled "bounded-..." are checked (a bounded stand-in,
			// reported as such, never counted as proved)
			if curF == nil {
				return fail(fmt.Errorf("bounded outside func"))
			}
			c, err := parseClause(rest, fmt.Sprintf("b%d", len(curF.Bounded)+1))
			if err != nil {
				return fail(err)
			}
			curF.Bounded = append(curF.Bounded, c)
		case "witness":
			if curF == nil {
				return fail(fmt.Errorf("witness outside func"))
			}
			for _, item := range splitTopLevelCommas(rest) {
				e, err := parseSpecExpr(strings.TrimSpace(item))
				if err != nil {
					return fail(err)
				}
				curF.Witness = append(curF.Witness, e)
			}
		case "havoc":
			if curF != nil {
				curF.Havoc = append(curF.Havoc, strings.Fields(rest)...)
			}
		case "inline":
			// "inline" alone: the function itself is inlined at its call sites;
			// "inline <callee>": in this unit, calls of <callee> are executed on its body even
			// though a contract for it exists (its loops take their specs from this unit)
			if curF != nil {
				if rest == "" {
					curF.Inline = true
				} else {
					curF.InlineCalls = append(curF.InlineCalls, strings.Fields(rest)...)
				}
			}
		case "trusted":
			if curF != nil {
				curF.Trusted = true
			}
		case "pure":
			if curF != nil {
				curF.Pure = true
			}
		case "dyntype":
			// dyntype <result name|index> <type>: the concrete type behind an
			// interface-typed result (so that callers can mention its fields)
			if curF == nil {
				return fail(fmt.Errorf("dyntype outside func"))
			}
			parts := strings.Fields(rest)
			if len(parts) != 2 {
				return fail(fmt.Errorf("dyntype <result> <type>"))
			}
			if curF.DynTypes == nil {
				curF.DynTypes = map[string]string{}
			}
			curF.DynTypes[parts[0]] = parts[1]
		case "boundedonly":
			// the function is checked only in the bounded run (no loop
			// invariants; every ensures clause is a bounded stand-in)
			if curF != nil {
				curF.BoundedOnly = true
				if n := 0; rest != "" {
					fmt.Sscanf(rest, "%d", &n)
					if n > 0 {
						curF.BoundN = n
					}
				}
			}
		case "noverify":
			if curF != nil {
				curF.NoVerify = true
			}
		case "may_panic":
			if curF != nil {
				curF.MayPanic = true
			}
		case "wire":
			if curF != nil {
				curF.Wire = append(curF.Wire, strings.Fields(strings.ReplaceAll(rest, ",", " "))...)
			}
		case "note":
			if curF != nil {
				curF.Notes = append(curF.Notes, rest)
			}
		case "loop":
			if curF == nil {
				return fail(fmt.Errorf("loop outside func"))
			}
			parts := strings.SplitN(rest, " ", 3)
			if len(parts) < 2 {
				return fail(fmt.Errorf("loop <key> invariant|decreases|unroll ..."))
			}
			ls := curF.Loops[parts[0]]
			if ls == nil {
				ls = &LoopSpec{Key: parts[0]}
				curF.Loops[parts[0]] = ls
			}
			arg := ""
			if len(parts) == 3 {
				arg = parts[2]
			}
			switch parts[1] {
			case "invariant":
				c, err := parseClause(arg, fmt.Sprintf("%d", len(ls.Invariants)+1))
				if err != nil {
					return fail(err)
				}
				ls.Invariants = append(ls.Invariants, c)
			case "decreases":
				c, err := parseClause(arg, "dec")
				if err != nil {
					return fail(err)
				}
				ls.Decreases = &c
			case "assigns":
				for _, item := range splitTopLevelCommas(arg) {
					as, err := parseAssign(strings.TrimSpace(item))
					if err != nil {
						return fail(err)
					}
					ls.Assigns = append(ls.Assigns, as)
				}
			case "unroll":
				n := 0
				fmt.Sscanf(arg, "%d", &n)
				if n <= 0 {
					return fail(fmt.Errorf("unroll needs a positive bound"))
				}
				ls.Unroll = n
			default:
				return fail(fmt.Errorf("unknown loop clause %q", parts[1]))
			}
		case "invariant":
			if curT == nil {
				return fail(fmt.Errorf("invariant outside type"))
			}
			c, err := parseClause(rest, fmt.Sprintf("%d", len(curT.Invariants)+1))
			if err != nil {
				return fail(err)
			}
			curT.Invariants = append(curT.Invariants, c)
		case "guarded_by":
			if curT == nil {
				return fail(fmt.Errorf("guarded_by outside type"))
			}
			i := strings.Index(rest, ":")
			if i < 0 {
				return fail(fmt.Errorf("guarded_by mu: f, g"))
			}
			mu := strings.TrimSpace(rest[:i])
			for _, f := range strings.Split(rest[i+1:], ",") {
				curT.GuardedBy[strings.TrimSpace(f)] = mu
			}
		}
	}
	return nil
}

func splitTopLevelCommas(s string) []string {
	var out []string
	depth := 0
	start := 0
	for i, c := range s {
		switch c {
		case '(', '[':
			depth++
		case ')', ']':
			depth--
		case ',':
			if depth == 0 {
				out = append(out, s[start:i])
				start = i + 1
			}
		}
	}
	out = append(out, s[start:])
	return out
}

func parseAssign(s string) (AssignSpec, error) {
	as := AssignSpec{Src: s}
	switch {
	case s == "nothing":
		as.Kind = "nothing"
	case s == "all":
		as.Kind = "all"
	case strings.HasPrefix(s, "ghost "):
		as.Kind = "ghost"
		as.Heap = strings.TrimSpace(s[6:])
	case strings.HasPrefix(s, "var "):
		// a captured variable of a closure (its cell is havocked at the call)
		as.Kind = "var"
		as.Heap = strings.TrimSpace(s[4:])
	case strings.HasPrefix(s, "heap "):
		as.Kind = "heap"
		as.Heap = strings.TrimSpace(s[5:])
	case strings.HasPrefix(s, "target(") && strings.HasSuffix(s, ")"):
		as.Kind = "target"
		e, err := parseSpecExpr(s[7 : len(s)-1])
		if err != nil {
			return as, err
		}
		as.E = e
	case strings.HasPrefix(s, "region(") && strings.HasSuffix(s, ")"):
		as.Kind = "region"
		e, err := parseSpecExpr(s[7 : len(s)-1])
		if err != nil {
			return as, err
		}
		as.E = e
	case strings.HasPrefix(s, "elems(") && strings.HasSuffix(s, ")"):
		as.Kind = "elems"
		e, err := parseSpecExpr(s[6 : len(s)-1])
		if err != nil {
			return as, err
		}
		as.E = e
	default:
		e, err := parseSpecExpr(s)
		if err != nil {
			return as, err
		}
		sel, ok := e.(*SSel)
		if !ok {
			return as, fmt.Errorf("assigns: expected nothing | all | heap <name> | elems(<slice>) | <obj>.<field>")
		}
		as.Kind = "field"
		as.E = sel.X
		as.Field = sel.Name
	}
	return as, nil
}

func parseSpecFunc(s string) (*SpecFunc, error) {
	if !strings.HasPrefix(s, "func ") {
		return nil, fmt.Errorf("spec func ...")
	}
	s = strings.TrimSpace(s[5:])
	i := strings.Index(s, "(")
	if i < 0 {
		return nil, fmt.Errorf("spec func: missing (")
	}
	sf := &SpecFunc{Name: strings.TrimSpace(s[:i]), Src: s}
	// find matching )
	depth := 0
	j := i
	for ; j < len(s); j++ {
		if s[j] == '(' {
			depth++
		} else if s[j] == ')' {
			depth--
			if depth == 0 {
				break
			}
		}
	}
	params := strings.TrimSpace(s[i+1 : j])
	if params != "" {
		for _, p := range strings.Split(params, ",") {
			f := strings.Fields(p)
			switch len(f) {
			case 1:
				sf.Params = append(sf.Params, SVar{Name: f[0]})
			case 2:
				sf.Params = append(sf.Params, SVar{Name: f[0], Type: f[1]})
			default:
				return nil, fmt.Errorf("spec func: bad parameter %q", p)
			}
		}
		for k := len(sf.Params) - 2; k >= 0; k-- {
			if sf.Params[k].Type == "" {
				sf.Params[k].Type = sf.Params[k+1].Type
			}
		}
	}
	rest := strings.TrimSpace(s[j+1:])
	if k := strings.Index(rest, "="); k >= 0 && !strings.HasPrefix(rest[k:], "==") {
		sf.Ret = strings.TrimSpace(rest[:k])
		e, err := parseSpecExpr(strings.TrimSpace(rest[k+1:]))
		if err != nil {
			return nil, err
		}
		sf.Body = e
	} else {
		sf.Ret = rest
	}
	if sf.Ret == "" {
		sf.Ret = "bool"
	}
	return sf, nil
}

func (db *ContractDB) loadAssumedDir(dir string) error {
	files, _ := filepath.Glob(filepath.Join(dir, "*.spec"))
	for _, f := range files {
		b, err := os.ReadFile(f)
		if err != nil {
			return err
		}
		if err := db.parseFile("", f, string(b)); err != nil {
			return err
		}
	}
	return nil
}

package main

import (
	"fmt"
	"go/types"
	"strings"

	"golang.org/x/tools/go/ssa"
)

type Kind int

const (
	KInvalid Kind = iota
	KBool
	KInt
	KBV8
	KStr
	KReal
	KSlice
	KStruct
	KArray
	KRef    // pointer to heap object of struct-like type, S = ref term (0 = nil)
	KPtr    // pointer with explicit base+path (cell, object field, slice element)
	KMap    // S = ref term
	KIface  // S = identity term (0 = nil), Dyn = payload when statically known
	KFunc   // Fn/Binds when known, else S
	KTuple  // Fields
	KOpaque // uninterpreted sort value, S
	KChan
)

type BaseKind int

const (
	BCell BaseKind = iota
	BObj           // heap object: Ref term, ObjT struct type; first path element is a field
	BElem          // element of region Rid at absolute index Idx; ElemT
)

type PathElem struct {
	Field int    // field index when Idx == ""
	Idx   string // array index term
}

type Cell struct {
	id   int
	name string
	T    types.Type
	glob *ssa.Global
	site ssa.Instruction // the Alloc that created the cell (nil for parameters / captured variables of a unit)
}

type Value struct {
	K Kind
	T types.Type
	S string
	Sort string // SMT sort for spec-level values without a Go type

	// slice
	Rid, Off, Len, Cap string

	Fields []Value // struct, tuple

	// pointer
	B    BaseKind
	Cell *Cell
	Ref  string
	ObjT types.Type
	Idx  string
	Path []PathElem

	// func
	Fn    *ssa.Function
	Binds []Value
	// bound method closure on interface/unknown
	Recv *Value

	Dyn *Value // interface payload
}

func (v Value) String() string {
	switch v.K {
	case KSlice:
		return fmt.Sprintf("slice(%s,%s,%s,%s)", v.Rid, v.Off, v.Len, v.Cap)
	case KStruct, KTuple:
		var ps []string
		for _, f := range v.Fields {
			ps = append(ps, f.String())
		}
		return "{" + strings.Join(ps, ", ") + "}"
	case KPtr:
		switch v.B {
		case BCell:
			return fmt.Sprintf("&cell%d(%s)%v", v.Cell.id, v.Cell.name, v.Path)
		case BObj:
			return fmt.Sprintf("&obj(%s)%v", v.Ref, v.Path)
		default:
			return fmt.Sprintf("&elem(%s,%s)%v", v.Rid, v.Idx, v.Path)
		}
	case KFunc:
		if v.Fn != nil {
			return "func " + v.Fn.String()
		}
	}
	return v.S
}

// ---------------------------------------------------------------------------
// sorts

type TypeCtx struct {
	d       *Decls
	opaque  map[string]string // qualified type name -> sort name
	structs map[string]*types.Struct
	anon    int
	names   map[*types.Struct]string
}

func newTypeCtx(d *Decls) *TypeCtx {
	return &TypeCtx{d: d, opaque: map[string]string{}, structs: map[string]*types.Struct{}, names: map[*types.Struct]string{}}
}

func qualName(t *types.Named) string {
	o := t.Obj()
	if o.Pkg() == nil {
		return o.Name()
	}
	return o.Pkg().Path() + "." + o.Name()
}

// always-opaque external types
var builtinOpaque = map[string]string{
	"time.Time":          "Int", // unix nanoseconds
	"math/big.Int":       "Int", // the mathematical value
	"sync.Mutex":         "Mutex",
	"sync.RWMutex":       "Mutex",
	"sync.WaitGroup":     "U_WaitGroup",
	"sync.Once":          "U_Once",
	"sync.Map":           "U_SyncMap",
	"context.Context":    "Int",
	"reflect.Value":      "U_reflectValue",
	"strings.Builder":    "U_strBuilder",
	"bytes.Buffer":       "U_bytesBuffer",
	"sync/atomic.Value":  "U_atomicValue",
	"sync/atomic.Int32":  "Int",
	"sync/atomic.Int64":  "Int",
	"sync/atomic.Uint32": "Int",
	"sync/atomic.Uint64": "Int",
	"sync/atomic.Bool":   "Bool",
	"go.uber.org/atomic.Uint64": "Int",
	"go.uber.org/atomic.Int64":  "Int",
	"go.uber.org/atomic.Uint32": "Int",
	"go.uber.org/atomic.Int32":  "Int",
	"go.uber.org/atomic.Bool":   "Bool",
}

func (tc *TypeCtx) opaqueSort(t types.Type) (string, bool) {
	n, ok := t.(*types.Named)
	if !ok {
		return "", false
	}
	q := qualName(n)
	if s, ok := tc.opaque[q]; ok {
		tc.d.declareSort(s)
		return s, true
	}
	if s, ok := builtinOpaque[q]; ok {
		tc.d.declareSort(s)
		return s, true
	}
	return "", false
}

func isByteType(t types.Type) bool {
	b, ok := t.Underlying().(*types.Basic)
	return ok && (b.Kind() == types.Uint8)
}

func intInfo(t types.Type) (bits int, signed bool, ok bool) {
	b, isb := t.Underlying().(*types.Basic)
	if !isb {
		return 0, false, false
	}
	switch b.Kind() {
	case types.Int, types.Int64, types.UntypedInt, types.UntypedRune:
		return 64, true, true
	case types.Int32:
		return 32, true, true
	case types.Int16:
		return 16, true, true
	case types.Int8:
		return 8, true, true
	case types.Uint, types.Uint64, types.Uintptr:
		return 64, false, true
	case types.Uint32:
		return 32, false, true
	case types.Uint16:
		return 16, false, true
	case types.Uint8:
		return 8, false, true
	}
	return 0, false, false
}

func (tc *TypeCtx) structName(t types.Type) string {
	if n, ok := t.(*types.Named); ok {
		return "S_" + sanitize(qualName(n))
	}
	st := t.Underlying().(*types.Struct)
	if nm, ok := tc.names[st]; ok {
		return nm
	}
	// identical anonymous structs share a name
	for o, nm := range tc.names {
		if types.Identical(o, st) {
			tc.names[st] = nm
			return nm
		}
	}
	tc.anon++
	nm := fmt.Sprintf("S_anon%d", tc.anon)
	tc.names[st] = nm
	return nm
}

func (tc *TypeCtx) sortOf(t types.Type) string {
	if s, ok := tc.opaqueSort(t); ok {
		return s
	}
	switch u := t.Underlying().(type) {
	case *types.Basic:
		switch {
		case u.Kind() == types.Bool || u.Kind() == types.UntypedBool:
			return sBool
		case u.Kind() == types.Uint8:
			return sBV8
		case u.Info()&types.IsInteger != 0:
			return sInt
		case u.Info()&types.IsString != 0:
			return sStr
		case u.Info()&types.IsFloat != 0:
			return sReal
		case u.Kind() == types.UnsafePointer, u.Kind() == types.UntypedNil:
			return sInt
		}
		return sInt
	case *types.Slice:
		return sSlc
	case *types.Pointer, *types.Map, *types.Chan, *types.Signature, *types.Interface:
		return sInt
	case *types.Array:
		return "(Array Int " + tc.sortOf(u.Elem()) + ")"
	case *types.Struct:
		name := tc.structName(t)
		if _, ok := tc.d.dts[name]; !ok {
			tc.d.dts[name] = "" // reserve (recursion guard)
			var fs []string
			for i := 0; i < u.NumFields(); i++ {
				fs = append(fs, fmt.Sprintf("(%s_f%d %s)", name, i, tc.sortOf(u.Field(i).Type())))
			}
			decl := fmt.Sprintf("(declare-datatypes ((%s 0)) (((mk_%s %s))))", name, name, strings.Join(fs, " "))
			if u.NumFields() == 0 {
				decl = fmt.Sprintf("(declare-datatypes ((%s 0)) (((mk_%s))))", name, name)
			}
			tc.d.dts[name] = decl
			tc.d.order = append(tc.d.order, decl)
		}
		return name
	case *types.Tuple:
		return sInt
	}
	return sInt
}

func (tc *TypeCtx) kindOf(t types.Type) Kind {
	if _, ok := tc.opaqueSort(t); ok {
		return KOpaque
	}
	switch u := t.Underlying().(type) {
	case *types.Basic:
		switch {
		case u.Kind() == types.Bool || u.Kind() == types.UntypedBool:
			return KBool
		case u.Kind() == types.Uint8:
			return KBV8
		case u.Info()&types.IsInteger != 0:
			return KInt
		case u.Info()&types.IsString != 0:
			return KStr
		case u.Info()&types.IsFloat != 0:
			return KReal
		}
		return KInt
	case *types.Slice:
		return KSlice
	case *types.Pointer:
		return KRef
	case *types.Map:
		return KMap
	case *types.Chan:
		return KChan
	case *types.Signature:
		return KFunc
	case *types.Interface:
		return KIface
	case *types.Array:
		return KArray
	case *types.Struct:
		return KStruct
	case *types.Tuple:
		return KTuple
	}
	return KInt
}

// splitTop splits "(f a b c)" into [f a b c]; returns nil if not an application.
func splitTop(t string) []string {
	if len(t) < 2 || t[0] != '(' || t[len(t)-1] != ')' {
		return nil
	}
	var out []string
	depth := 0
	start := -1
	body := t[1 : len(t)-1]
	for i := 0; i < len(body); i++ {
		c := body[i]
		switch {
		case c == '(':
			if depth == 0 && start < 0 {
				start = i
			}
			depth++
		case c == ')':
			depth--
			if depth < 0 {
				return nil
			}
			if depth == 0 && start >= 0 {
				out = append(out, body[start:i+1])
				start = -1
			}
		case c == ' ':
			if depth == 0 && start >= 0 {
				out = append(out, body[start:i])
				start = -1
			}
		case c == '|':
			if depth == 0 && start < 0 {
				start = i
			}
			j := strings.IndexByte(body[i+1:], '|')
			if j < 0 {
				return nil
			}
			i += j + 1
		default:
			if depth == 0 && start < 0 {
				start = i
			}
		}
	}
	if depth != 0 {
		return nil
	}
	if start >= 0 {
		out = append(out, body[start:])
	}
	return out
}

func accessor(ctor string, nargs int, idx int, acc string, t string) string {
	if p := splitTop(t); p != nil && len(p) == nargs+1 && p[0] == ctor {
		return p[idx+1]
	}
	return "(" + acc + " " + t + ")"
}

// pack converts a Value into a single SMT term of sortOf(v.T).
func (tc *TypeCtx) pack(x *Exec, v Value) string {
	switch v.K {
	case KBool, KInt, KBV8, KStr, KReal, KRef, KMap, KOpaque, KArray, KChan:
		return v.S
	case KIface:
		if v.S == "" {
			panic("iface without identity")
		}
		return v.S
	case KSlice:
		return "(mkslc " + v.Rid + " " + v.Off + " " + v.Len + " " + v.Cap + ")"
	case KStruct:
		name := tc.sortOf(v.T)
		if len(v.Fields) == 0 {
			return "mk_" + name
		}
		parts := make([]string, len(v.Fields))
		for i, f := range v.Fields {
			parts[i] = tc.pack(x, f)
		}
		return "(mk_" + name + " " + strings.Join(parts, " ") + ")"
	case KFunc:
		if v.S != "" {
			return v.S
		}
		return x.box(v)
	case KPtr:
		return x.box(v)
	}
	panic(fmt.Sprintf("pack: unsupported kind %d (%v)", v.K, v.T))
}

// unpack converts a term of sortOf(t) into a Value.
func (tc *TypeCtx) unpack(x *Exec, t types.Type, term string) Value {
	if x != nil {
		if b, ok := x.boxes[term]; ok {
			return *b
		}
	}
	k := tc.kindOf(t)
	switch k {
	case KSlice:
		return Value{K: KSlice, T: t,
			Rid: accessor("mkslc", 4, 0, "s_rid", term),
			Off: accessor("mkslc", 4, 1, "s_off", term),
			Len: accessor("mkslc", 4, 2, "s_len", term),
			Cap: accessor("mkslc", 4, 3, "s_cap", term)}
	case KStruct:
		st := t.Underlying().(*types.Struct)
		name := tc.sortOf(t)
		v := Value{K: KStruct, T: t}
		for i := 0; i < st.NumFields(); i++ {
			ft := accessor("mk_"+name, st.NumFields(), i, fmt.Sprintf("%s_f%d", name, i), term)
			v.Fields = append(v.Fields, tc.unpack(x, st.Field(i).Type(), ft))
		}
		return v
	}
	return Value{K: k, T: t, S: term}
}

func (tc *TypeCtx) zero(x *Exec, t types.Type) Value {
	k := tc.kindOf(t)
	switch k {
	case KBool:
		return Value{K: k, T: t, S: tFalse}
	case KInt, KRef, KMap, KIface, KChan:
		return Value{K: k, T: t, S: "0"}
	case KFunc:
		return Value{K: k, T: t, S: "0"}
	case KBV8:
		return Value{K: k, T: t, S: "#x00"}
	case KReal:
		return Value{K: k, T: t, S: "0.0"}
	case KStr:
		return Value{K: k, T: t, S: x.strLit("")}
	case KSlice:
		return Value{K: k, T: t, Rid: "0", Off: "0", Len: "0", Cap: "0"}
	case KStruct:
		st := t.Underlying().(*types.Struct)
		v := Value{K: k, T: t}
		for i := 0; i < st.NumFields(); i++ {
			v.Fields = append(v.Fields, tc.zero(x, st.Field(i).Type()))
		}
		return v
	case KArray:
		at := t.Underlying().(*types.Array)
		ez := tc.pack(x, tc.zero(x, at.Elem()))
		return Value{K: k, T: t, S: constArrayTerm(x, tc.sortOf(t), ez)}
	case KOpaque:
		s := tc.sortOf(t)
		switch s {
		case sInt:
			return Value{K: k, T: t, S: "0"}
		case sBool:
			return Value{K: k, T: t, S: tFalse}
		}
		return Value{K: k, T: t, S: tc.d.constant("zero_"+sanitize(s), s)}
	}
	return Value{K: KInt, T: t, S: "0"}
}

package main

// Symbolic state, memory model and helpers.

import (
	"os"
	"fmt"
	"go/token"
	"go/types"
	"sort"
	"strings"

	"golang.org/x/tools/go/ssa"
)

type PCNode struct {
	parent *PCNode
	term   string
	n      int
	dn     int // value of the fresh-name counter when the fact was assumed
}

// curDecls: the declaration table of the running unit (fresh-name counter for PCNode.dn).
var curDecls *Decls

type State struct {
	pc    *PCNode
	cells map[*Cell]Value
	heaps map[string]string
	alloc string
	wf    map[string]bool
	held  map[string]string // lock ghost: mutex key -> "w" | "r"
	heldRef map[string]string // mutex key -> ref of the object the mutex is a field of
	ghost map[string]Value  // named snapshot values (lets)
	memo  map[string]string // named sub-terms (e.g. Int value of a byte term)
	writes  map[string][]writeRec // heap -> locations written on this path
	noframe map[string]bool       // heaps with writes at unknown locations
	heapPfx string                // suffix of lazily created initial heap constants (arbitrary earlier state of a callback unit)
	pivots  []string              // lengths at which a slice was extended on this path (case-split hints for quantified goals)
}

func (s *State) clone() *State {
	n := &State{pc: s.pc, alloc: s.alloc, heapPfx: s.heapPfx, pivots: append([]string(nil), s.pivots...),
		cells: make(map[*Cell]Value, len(s.cells)),
		heaps: make(map[string]string, len(s.heaps)),
		wf:    make(map[string]bool, len(s.wf)),
		held:  make(map[string]string, len(s.held)),
		ghost: make(map[string]Value, len(s.ghost)),
	}
	for k, v := range s.cells {
		n.cells[k] = v
	}
	for k, v := range s.heaps {
		n.heaps[k] = v
	}
	for k, v := range s.wf {
		n.wf[k] = v
	}
	for k, v := range s.held {
		n.held[k] = v
	}
	if s.heldRef != nil {
		n.heldRef = make(map[string]string, len(s.heldRef))
		for k, v := range s.heldRef {
			n.heldRef[k] = v
		}
	}
	if s.writes != nil {
		n.writes = make(map[string][]writeRec, len(s.writes))
		for k, v := range s.writes {
			n.writes[k] = v
		}
	}
	if s.noframe != nil {
		n.noframe = make(map[string]bool, len(s.noframe))
		for k, v := range s.noframe {
			n.noframe[k] = v
		}
	}
	if s.memo != nil {
		n.memo = make(map[string]string, len(s.memo))
		for k, v := range s.memo {
			n.memo[k] = v
		}
	}
	for k, v := range s.ghost {
		n.ghost[k] = v
	}
	return n
}

func (s *State) assume(t string) {
	if t == tTrue || t == "" {
		return
	}
	n := 1
	if s.pc != nil {
		n = s.pc.n + 1
	}
	dn := 0
	if curDecls != nil {
		dn = curDecls.n
	}
	s.pc = &PCNode{parent: s.pc, term: t, n: n, dn: dn}
}

func (s *State) pcList() []string {
	var out []string
	for p := s.pc; p != nil; p = p.parent {
		out = append(out, p.term)
	}
	// reverse
	for i, j := 0, len(out)-1; i < j; i, j = i+1, j-1 {
		out[i], out[j] = out[j], out[i]
	}
	return out
}

func (s *State) infeasible() bool {
	for p := s.pc; p != nil; p = p.parent {
		if p.term == tFalse {
			return true
		}
	}
	return false
}

type Obligation struct {
	Name   string // unit#kind:label@path
	Unit   string
	Kind   string
	Label  string
	Pos    string
	Hyps   []string
	Goal   string
	Cover  bool // satisfiability expected (vacuity guard) rather than validity
	Canary bool // must NOT be provable
	Note   string
}

type UnsupportedError struct{ Msg string }

func (e *UnsupportedError) Error() string { return e.Msg }

func unsupported(format string, args ...interface{}) {
	panic(&UnsupportedError{fmt.Sprintf(format, args...)})
}

type Exec struct {
	assignBinds []Value       // captured-variable bindings of the closure whose contract is being applied
	assignFn    *ssa.Function
	cutArr  map[*ssa.Call][]workItem
	cutSpec map[*ssa.Call]*CutSpec
	cutDone map[*ssa.Call]bool
	cutFired map[string]bool
	prog      *Program
	db        *ContractDB
	d         *Decls
	tc        *TypeCtx
	unit      string
	unitFn    *ssa.Function
	unitC     *FuncContract
	obls      []*Obligation
	boxes     map[string]*Value
	strs      map[string]string
	notes     map[string]bool
	unmod     map[string]bool
	assumed   map[string]bool
	inlined   map[string]bool
	heapSorts map[string]string
	cellN     int
	globals   map[*ssa.Global]*Cell
	pathN     int
	maxPaths  int
	axioms    []string
	specDepth int
	oblSeen   map[string]int
	wireDepth int
	callDepth int
	safety    bool // emit automatic safety obligations
	curPos    token.Pos
	entry     *State // state at unit entry (after requires) for old()
	sentinels []string
	alloc0    string
	strLens   map[string]int
	probing   bool
	pruner    *Pruner
	probes    []Probe
	ghostNames []string
	wfHeaps   map[string]bool
	lateAxioms []lateAxiom
	heapTypes  map[string]heapType
	bounded   int // >0: bounded concretisation mode (loop unroll bound)
	pendingBinds []Value
	specEval  int
	lemmaCut  int // proving lemma number lemmaCut: only earlier lemmas are available (0 = all)
	coverN    map[string]int // vacuity queries emitted so far, per label
	pkgPath   string // package of the unit under verification (scope of spec functions and axioms)
	safetyOnly bool // only run-time safety obligations are generated (property tag "Cxx:safety")
	boundedRun bool // bounded stand-in run of a contract with "bounded" clauses
	boundN    int
	underBinder int
	pureCalls map[string]bool
	usedContracts map[string]bool
	stats     struct{ instrs, forks, calls int }
}

func newExec(prog *Program, db *ContractDB, unit string) *Exec {
	d := newDecls()
	curDecls = d
	x := &Exec{prog: prog, db: db, d: d, tc: newTypeCtx(d), unit: unit,
		boxes: map[string]*Value{}, strs: map[string]string{}, notes: map[string]bool{},
		unmod: map[string]bool{}, assumed: map[string]bool{}, inlined: map[string]bool{},
		heapSorts: map[string]string{}, globals: map[*ssa.Global]*Cell{}, maxPaths: 4000,
		wfHeaps: map[string]bool{}, oblSeen: map[string]int{}, safety: true, strLens: map[string]int{}, pureCalls: map[string]bool{}, usedContracts: map[string]bool{}}
	return x
}

// useOpaque applies the opaque-type declarations of the unit's own package
// (and of the assumed files) — opacity is a per-unit modelling choice.
// pkgContracts: the contract files visible to the unit's package (its own and the
// shared assumed ones), in a fixed order.  Spec functions and axioms are scoped by
// package: two packages may each declare, say, serviceOK.
func (x *Exec) pkgContracts() []*PkgContracts {
	var keys []string
	for k, pc := range x.db.Pkgs {
		if pc.Pkg == x.pkgPath || pc.Pkg == "" {
			keys = append(keys, k)
		}
	}
	sort.Strings(keys)
	var out []*PkgContracts
	for _, k := range keys {
		out = append(out, x.db.Pkgs[k])
	}
	return out
}

func (x *Exec) lookupSpec(name string) *SpecFunc {
	for _, pc := range x.pkgContracts() {
		if sf, ok := pc.Specs[name]; ok {
			return sf
		}
	}
	// a contract of another loaded package applied at a call site: its spec functions are
	// visible if the name is unambiguous
	var found *SpecFunc
	n := 0
	for _, pc := range x.db.Pkgs {
		if sf, ok := pc.Specs[name]; ok {
			found = sf
			n++
		}
	}
	if n == 1 {
		return found
	}
	return nil
}

// useOpaque: the "opaque T as Sort" declarations of the contract file the unit's contract
// lives in (and of the shared assumed files).  Another contract file of the same package may
// look inside T (e.g. to execute an iteration method of T on its body).
func (x *Exec) useOpaque(pkgPath, file string) {
	x.pkgPath = pkgPath
	for k, pc := range x.db.Pkgs {
		if (pc.Pkg == pkgPath && (file == "" || strings.HasSuffix(k, "|"+file))) || pc.Pkg == "" {
			for k, v := range pc.Opaque {
				x.tc.opaque[k] = v
			}
		}
	}
}

func (x *Exec) note(format string, args ...interface{}) {
	x.notes[fmt.Sprintf(format, args...)] = true
}

func (x *Exec) posString(p token.Pos) string {
	if !p.IsValid() {
		return ""
	}
	pp := x.prog.fset.Position(p)
	f := pp.Filename
	if i := strings.Index(f, "/repo/"); i >= 0 {
		f = f[i+6:]
	}
	return fmt.Sprintf("%s:%d", f, pp.Line)
}

func (x *Exec) newCell(name string, t types.Type) *Cell {
	x.cellN++
	return &Cell{id: x.cellN, name: name, T: t}
}

func (x *Exec) box(v Value) string {
	c := x.d.fresh("box", sInt)
	vv := v
	x.boxes[c] = &vv
	return c
}

func (x *Exec) strLit(s string) string {
	if c, ok := x.strs[s]; ok {
		return c
	}
	c := x.d.constant(fmt.Sprintf("str!%d", len(x.strs)), sStr)
	x.strs[s] = c
	return c
}

// oblige records a proof obligation "pc ==> goal".
func (x *Exec) oblige(st *State, kind, label string, goal string, pos token.Pos) {
	if goal == tTrue {
		x.record(st, kind, label, goal, pos, true)
		return
	}
	// a universally quantified goal after a slice was extended on this path: prove it
	// separately below and at/above the old length (the solvers do not find this case
	// split by themselves inside the time budget); the two cases are exhaustive
	if len(st.pivots) > 0 && strings.HasPrefix(goal, "(forall ((") && os.Getenv("GOVC_NOSPLIT") == "" {
		if inst, consts, ok := x.skolemizeGoal(goal); ok {
			c, p := consts[0], st.pivots[len(st.pivots)-1]
			x.record(st, kind, label, mkImp(mkCmp("<", c, p), inst), pos, false)
			x.record(st, kind, label, mkImp(mkCmp(">=", c, p), inst), pos, false)
			return
		}
	}
	x.record(st, kind, label, goal, pos, false)
}

// skolemizeGoal: (forall ((a Int) (b Int)) body) -> body with fresh constants.
func (x *Exec) skolemizeGoal(goal string) (string, []string, bool) {
	parts := splitTop(goal)
	if len(parts) != 3 || parts[0] != "forall" {
		return "", nil, false
	}
	body := parts[2]
	if strings.HasPrefix(body, "(! ") {
		if bp := splitTop(body); len(bp) >= 2 {
			body = bp[1]
		}
	}
	var consts []string
	for _, b := range splitTop(parts[1]) {
		bp := splitTop(b)
		if len(bp) != 2 || bp[1] != sInt {
			return "", nil, false
		}
		c := x.d.fresh("sk."+bp[0], sInt)
		body = replaceTok(body, bp[0], c)
		consts = append(consts, c)
	}
	return body, consts, len(consts) > 0
}

// replaceTok replaces whole-token occurrences of old in t.
func replaceTok(t, old, new string) string {
	var sb strings.Builder
	i := 0
	for {
		j := strings.Index(t[i:], old)
		if j < 0 {
			sb.WriteString(t[i:])
			return sb.String()
		}
		j += i
		k := j + len(old)
		before := j == 0 || t[j-1] == ' ' || t[j-1] == '('
		after := k == len(t) || t[k] == ' ' || t[k] == ')'
		sb.WriteString(t[i:j])
		if before && after {
			sb.WriteString(new)
		} else {
			sb.WriteString(old)
		}
		i = k
	}
}

func (x *Exec) record(st *State, kind, label, goal string, pos token.Pos, trivial bool) {
	if st.infeasible() {
		return
	}
	if x.safetyOnly {
		switch kind {
		case "nil", "idx", "slice", "div0", "assertT", "mapnil", "makeneg", "pre":
		default:
			return // proved under the property that owns this unit's functional contract
		}
	}
	base := x.unit + "#" + kind
	if label != "" {
		base += ":" + label
	}
	x.oblSeen[base]++
	name := fmt.Sprintf("%s@%d", base, x.oblSeen[base])
	o := &Obligation{Name: name, Unit: x.unit, Kind: kind, Label: label, Goal: goal, Pos: x.posString(pos)}
	if !trivial {
		o.Hyps = st.pcList()
	}
	x.obls = append(x.obls, o)
}

// lockedTerm: some mutex that is a field of object `ref` is held on this path.
func (x *Exec) lockedTerm(st *State, ref string) string {
	var ors []string
	for _, k := range sortedKeys(st.heldRef) {
		if _, ok := st.held[k]; !ok {
			continue
		}
		r := st.heldRef[k]
		if r == ref {
			return tTrue
		}
		ors = append(ors, mkEq(r, ref))
	}
	if len(ors) == 0 {
		return tFalse
	}
	return mkOr(ors...)
}

// guardCheck: lock-discipline obligation for fields declared `guarded`: the
// access happens with a mutex of the same object held, or the object was
// allocated by this very call (not yet shared).
func (x *Exec) guardCheck(st *State, ref string, objT types.Type, field int, pos token.Pos) {
	if x.specEval > 0 || len(x.db.Guarded) == 0 {
		return
	}
	n, ok := objT.(*types.Named)
	if !ok {
		return
	}
	fname := n.Underlying().(*types.Struct).Field(field).Name()
	scope := x.db.Guarded[qualName(n)+"."+fname]
	if scope == "" {
		return
	}
	if scope != "*" {
		in := false
		if c := x.unitC; c != nil {
			for _, p := range c.Props {
				in = in || p == scope
			}
		}
		if !in {
			return
		}
	}
	x.oblige(st, "guard", n.Obj().Name()+"."+fname, mkOr(mkCmp(">=", ref, "alloc0"), x.lockedTerm(st, ref)), pos)
}

// safetyCheck emits an automatic safety obligation and then assumes it.
func (x *Exec) safetyCheck(st *State, kind string, goal string, pos token.Pos) {
	if goal == tTrue {
		return
	}
	if x.specEval > 0 {
		return // reads made while evaluating a contract expression: no run-time check
	}
	if x.safety {
		x.oblige(st, kind, x.posString(pos), goal, pos)
	}
	st.assume(goal)
}

// ---------------------------------------------------------------------------
// heaps

func (x *Exec) heapTerm(st *State, name, sort string) string {
	if t, ok := st.heaps[name]; ok {
		return t
	}
	x.heapSorts[name] = sort
	t := x.d.constant(sanitize(name)+"@0"+st.heapPfx, sort)
	st.heaps[name] = t
	return t
}

func (x *Exec) fieldHeapName(structT types.Type, idx int) (string, string) {
	st := structT.Underlying().(*types.Struct)
	name := "F$" + strings.TrimPrefix(x.tc.structName(structT), "S_") + "$" + st.Field(idx).Name()
	sort := "(Array Int " + x.tc.sortOf(st.Field(idx).Type()) + ")"
	x.initHeapWF(name, st.Field(idx).Type(), false)
	return name, sort
}

func (x *Exec) elemHeapName(elemT types.Type) (string, string) {
	es := x.tc.sortOf(elemT)
	name := "H$" + sanitize(es)
	// Int-sorted elements: one heap per value class, so that the entry typing fact
	// of the heap (reference below alloc0 / machine integer range) is true of every
	// region it holds
	if es == sInt {
		switch x.tc.kindOf(elemT) {
		case KRef, KMap, KIface, KChan:
			name += "$ref"
		case KInt:
			if bits, signed, ok := intInfo(elemT); ok {
				if signed {
					name += fmt.Sprintf("$i%d", bits)
				} else {
					name += fmt.Sprintf("$u%d", bits)
				}
			}
		}
	}
	x.initHeapWF(name, elemT, true)
	return name, "(Array Int (Array Int " + es + "))"
}

func (x *Exec) mapHeapNames(mt *types.Map) (pname, psort, vname, vsort string) {
	ks := x.tc.sortOf(mt.Key())
	vs := x.tc.sortOf(mt.Elem())
	// one pair of heaps per Go map type (key and element types spelled out): maps of
	// different types are different objects, so a store into one never reaches the other
	// (with heaps shared by sort, a map of maps could be "aliased" by one of its own values)
	base := sanitize(ks) + "$" + sanitize(vs) + "$" + sanitize(types.TypeString(mt.Key(), nil)) + "$" + sanitize(types.TypeString(mt.Elem(), nil))
	return "MP$" + base, "(Array Int (Array " + ks + " Bool))", "MV$" + base, "(Array Int (Array " + ks + " " + vs + "))"
}

// allocRef returns a fresh reference (object id / region id).
func (x *Exec) allocRef(st *State) string {
	r := st.alloc
	st.alloc = mkAdd(st.alloc, "1")
	if _, ok := isIntLit(r); !ok {
		// keep the chain short: name it
		c := x.d.fresh("ref", sInt)
		st.assume(mkEq(c, r))
		st.alloc = mkAdd(c, "1")
		return c
	}
	return r
}

// assumeWF adds the typing facts Go guarantees for a value read from
// symbolic memory or received as input.
func (x *Exec) assumeWF(st *State, v Value) {
	if x.underBinder > 0 || st == nil {
		return // terms may mention bound variables: no path-condition facts
	}
	switch v.K {
	case KInt:
		if _, ok := isIntLit(v.S); ok {
			return
		}
		if st.wf[v.S] {
			return
		}
		st.wf[v.S] = true
		if bits, signed, ok := intInfo(v.T); ok {
			st.assume(inRange(v.S, bits, signed))
		}
	case KSlice:
		key := v.Rid + "|" + v.Off + "|" + v.Len + "|" + v.Cap
		if st.wf[key] {
			return
		}
		st.wf[key] = true
		st.assume(mkAnd(mkCmp("<=", "0", v.Rid), mkCmp("<", v.Rid, st.alloc), mkCmp("<=", "0", v.Off),
			mkCmp("<=", "0", v.Len), mkCmp("<=", v.Len, v.Cap), mkCmp("<=", mkAdd(v.Off, v.Cap), maxSliceLen),
			mkImp(mkEq(v.Rid, "0"), mkEq(v.Cap, "0"))))
		if x.bounded > 0 {
			st.assume(mkCmp("<=", v.Len, "64")) // failing-input search: replayable sizes only
		}
	case KRef, KMap, KIface, KChan:
		if _, ok := isIntLit(v.S); ok || v.S == "" {
			return
		}
		if st.wf[v.S] {
			return
		}
		st.wf[v.S] = true
		st.assume(mkAnd(mkCmp("<=", "0", v.S), mkCmp("<", v.S, st.alloc)))
	case KStr:
		if st.wf[v.S] {
			return
		}
		st.wf[v.S] = true
		st.assume(mkAnd(mkCmp("<=", "0", "(strlen "+v.S+")"), mkCmp("<=", "(strlen "+v.S+")", maxSliceLen)))
	case KStruct, KTuple:
		for _, f := range v.Fields {
			x.assumeWF(st, f)
		}
	}
}

const maxSliceLen = "1099511627776" // 2^40: stated bound on slice extents (ledger)

// symbolic creates a fresh symbolic value of Go type t.
func (x *Exec) symbolic(st *State, t types.Type, name string) Value {
	k := x.tc.kindOf(t)
	var v Value
	switch k {
	case KSlice:
		v = Value{K: k, T: t, Rid: x.d.fresh(name+".rid", sInt), Off: x.d.fresh(name+".off", sInt),
			Len: x.d.fresh(name+".len", sInt), Cap: x.d.fresh(name+".cap", sInt)}
	case KStruct:
		stt := t.Underlying().(*types.Struct)
		v = Value{K: k, T: t}
		for i := 0; i < stt.NumFields(); i++ {
			v.Fields = append(v.Fields, x.symbolic(st, stt.Field(i).Type(), name+"."+stt.Field(i).Name()))
		}
		return v
	case KTuple:
		tt := t.(*types.Tuple)
		v = Value{K: k, T: t}
		for i := 0; i < tt.Len(); i++ {
			v.Fields = append(v.Fields, x.symbolic(st, tt.At(i).Type(), fmt.Sprintf("%s.%d", name, i)))
		}
		return v
	default:
		v = Value{K: k, T: t, S: x.d.fresh(name, x.tc.sortOf(t))}
	}
	x.assumeWF(st, v)
	return v
}

// ---------------------------------------------------------------------------
// loads and stores

func (x *Exec) loadField(st *State, ref string, objT types.Type, idx int) Value {
	name, sort := x.fieldHeapName(objT, idx)
	h := x.heapTerm(st, name, sort)
	ft := objT.Underlying().(*types.Struct).Field(idx).Type()
	v := x.tc.unpack(x, ft, mkSelect(h, ref))
	x.assumeWF(st, v)
	return v
}

func (x *Exec) storeField(st *State, ref string, objT types.Type, idx int, v Value) {
	name, sort := x.fieldHeapName(objT, idx)
	h := x.heapTerm(st, name, sort)
	x.setHeap(st, name, mkStore(h, ref, x.tc.pack(x, v)))
}

func (x *Exec) loadElem(st *State, rid, idx string, elemT types.Type) Value {
	name, sort := x.elemHeapName(elemT)
	h := x.heapTerm(st, name, sort)
	v := x.tc.unpack(x, elemT, mkSelect(mkSelect(h, rid), idx))
	x.assumeWF(st, v)
	return v
}

func (x *Exec) storeElem(st *State, rid, idx string, elemT types.Type, v Value) {
	name, sort := x.elemHeapName(elemT)
	h := x.heapTerm(st, name, sort)
	x.setHeap(st, name, mkStore(h, rid, mkStore(mkSelect(h, rid), idx, x.tc.pack(x, v))))
}

func (x *Exec) regionTerm(st *State, rid string, elemT types.Type) string {
	name, sort := x.elemHeapName(elemT)
	return mkSelect(x.heapTerm(st, name, sort), rid)
}

func (x *Exec) setRegion(st *State, rid string, elemT types.Type, arr string) {
	name, sort := x.elemHeapName(elemT)
	h := x.heapTerm(st, name, sort)
	x.setHeap(st, name, mkStore(h, rid, arr))
}

// getPath navigates inside a value.
func (x *Exec) getPath(st *State, v Value, path []PathElem) Value {
	if len(path) == 0 {
		return v
	}
	p := path[0]
	switch v.K {
	case KStruct:
		return x.getPath(st, v.Fields[p.Field], path[1:])
	case KArray:
		at := v.T.Underlying().(*types.Array)
		if v.Rid != "" { // region-backed local array
			return x.getPath(st, x.loadElem(st, v.Rid, p.Idx, at.Elem()), path[1:])
		}
		ev := x.tc.unpack(x, at.Elem(), mkSelect(v.S, p.Idx))
		x.assumeWF(st, ev)
		return x.getPath(st, ev, path[1:])
	}
	unsupported("getPath through kind %d (%v)", v.K, v.T)
	return Value{}
}

func (x *Exec) setPath(st *State, v Value, path []PathElem, nv Value) Value {
	if len(path) == 0 {
		if v.K == KArray && v.Rid != "" && nv.K == KArray {
			// assigning a whole array to a region-backed array variable
			at := v.T.Underlying().(*types.Array)
			x.setRegion(st, v.Rid, at.Elem(), x.arrayTerm(st, nv))
			return v
		}
		return nv
	}
	p := path[0]
	switch v.K {
	case KStruct:
		out := v
		out.Fields = append([]Value(nil), v.Fields...)
		out.Fields[p.Field] = x.setPath(st, v.Fields[p.Field], path[1:], nv)
		return out
	case KArray:
		at := v.T.Underlying().(*types.Array)
		if v.Rid != "" {
			old := x.loadElem(st, v.Rid, p.Idx, at.Elem())
			x.storeElem(st, v.Rid, p.Idx, at.Elem(), x.setPath(st, old, path[1:], nv))
			return v
		}
		old := x.tc.unpack(x, at.Elem(), mkSelect(v.S, p.Idx))
		ne := x.setPath(st, old, path[1:], nv)
		out := v
		out.S = mkStore(v.S, p.Idx, x.tc.pack(x, ne))
		return out
	}
	unsupported("setPath through kind %d (%v)", v.K, v.T)
	return Value{}
}

// arrayTerm gives the SMT array of an array value (snapshot for region-backed ones).
func (x *Exec) arrayTerm(st *State, v Value) string {
	if v.Rid != "" {
		at := v.T.Underlying().(*types.Array)
		return x.regionTerm(st, v.Rid, at.Elem())
	}
	return v.S
}

func pointee(t types.Type) types.Type {
	if p, ok := t.Underlying().(*types.Pointer); ok {
		return p.Elem()
	}
	return nil
}

func (x *Exec) isStructLike(t types.Type) bool {
	if _, ok := x.tc.opaqueSort(t); ok {
		return false
	}
	_, ok := t.Underlying().(*types.Struct)
	return ok
}

// loadObject gathers a whole struct from the field heaps.
func (x *Exec) loadObject(st *State, ref string, objT types.Type) Value {
	stt := objT.Underlying().(*types.Struct)
	v := Value{K: KStruct, T: objT}
	for i := 0; i < stt.NumFields(); i++ {
		v.Fields = append(v.Fields, x.loadField(st, ref, objT, i))
	}
	return v
}

func (x *Exec) storeObject(st *State, ref string, objT types.Type, v Value) {
	for i := range v.Fields {
		x.storeField(st, ref, objT, i, v.Fields[i])
	}
}

func (x *Exec) opaqueHeap(t types.Type) (string, string) {
	s := x.tc.sortOf(t)
	if n, ok := t.(*types.Named); ok {
		return "O$" + sanitize(qualName(n)), "(Array Int " + s + ")"
	}
	return "O$" + sanitize(types.TypeString(t, nil)), "(Array Int " + s + ")"
}

func (x *Exec) load(st *State, p Value, pos token.Pos) Value {
	switch p.K {
	case KRef:
		x.safetyCheck(st, "nil", mkNot(mkEq(p.S, "0")), pos)
		et := pointee(p.T)
		if et == nil {
			unsupported("load through non-pointer %v", p.T)
		}
		if x.isStructLike(et) {
			return x.loadObject(st, p.S, et)
		}
		// pointer to opaque or scalar living in the symbolic heap
		name, sort := x.opaqueHeap(et)
		h := x.heapTerm(st, name, sort)
		v := x.tc.unpack(x, et, mkSelect(h, p.S))
		x.assumeWF(st, v)
		return v
	case KPtr:
		switch p.B {
		case BCell:
			cv, ok := st.cells[p.Cell]
			if !ok {
				if p.Cell.glob != nil {
					cv = x.initGlobal(st, p.Cell)
				} else {
					unsupported("load of dead cell %s", p.Cell.name)
				}
			}
			v := x.getPath(st, cv, p.Path)
			if v.K == KArray && v.Rid != "" {
				// snapshot value semantics
				return Value{K: KArray, T: v.T, S: x.arrayTerm(st, v)}
			}
			return v
		case BObj:
			x.safetyCheck(st, "nil", mkNot(mkEq(p.Ref, "0")), pos)
			if len(p.Path) == 0 {
				return x.loadObject(st, p.Ref, p.ObjT)
			}
			x.guardCheck(st, p.Ref, p.ObjT, p.Path[0].Field, pos)
			fv := x.loadField(st, p.Ref, p.ObjT, p.Path[0].Field)
			return x.getPath(st, fv, p.Path[1:])
		case BElem:
			et := p.ObjT
			ev := x.loadElem(st, p.Rid, p.Idx, et)
			return x.getPath(st, ev, p.Path)
		}
	}
	unsupported("load through value kind %d", p.K)
	return Value{}
}

func (x *Exec) store(st *State, p Value, v Value, pos token.Pos) {
	switch p.K {
	case KRef:
		x.safetyCheck(st, "nil", mkNot(mkEq(p.S, "0")), pos)
		et := pointee(p.T)
		if x.isStructLike(et) {
			x.storeObject(st, p.S, et, v)
			return
		}
		name, sort := x.opaqueHeap(et)
		h := x.heapTerm(st, name, sort)
		x.setHeap(st, name, mkStore(h, p.S, x.tc.pack(x, v)))
		return
	case KPtr:
		switch p.B {
		case BCell:
			cv, ok := st.cells[p.Cell]
			if !ok {
				if p.Cell.glob != nil {
					cv = x.initGlobal(st, p.Cell)
				} else {
					unsupported("store to dead cell %s", p.Cell.name)
				}
			}
			st.cells[p.Cell] = x.setPath(st, cv, p.Path, v)
			return
		case BObj:
			x.safetyCheck(st, "nil", mkNot(mkEq(p.Ref, "0")), pos)
			if len(p.Path) == 0 {
				x.storeObject(st, p.Ref, p.ObjT, v)
				return
			}
			fi := p.Path[0].Field
			x.guardCheck(st, p.Ref, p.ObjT, fi, pos)
			if len(p.Path) == 1 {
				x.storeField(st, p.Ref, p.ObjT, fi, v)
				return
			}
			fv := x.loadField(st, p.Ref, p.ObjT, fi)
			x.storeField(st, p.Ref, p.ObjT, fi, x.setPath(st, fv, p.Path[1:], v))
			return
		case BElem:
			if len(p.Path) == 0 {
				x.storeElem(st, p.Rid, p.Idx, p.ObjT, v)
				return
			}
			ev := x.loadElem(st, p.Rid, p.Idx, p.ObjT)
			x.storeElem(st, p.Rid, p.Idx, p.ObjT, x.setPath(st, ev, p.Path, v))
			return
		}
	}
	unsupported("store through value kind %d", p.K)
}

func (x *Exec) initGlobal(st *State, c *Cell) Value {
	g := c.glob
	t := pointee(g.Type())
	name := "g." + g.Pkg.Pkg.Name() + "." + g.Name()
	v := x.symbolicGlobal(st, t, name)
	st.cells[c] = v
	return v
}

// symbolicGlobal: globals have an arbitrary (but fixed) value; package-level
// error sentinels are non-nil and pairwise distinct (ledger).
func (x *Exec) symbolicGlobal(st *State, t types.Type, name string) Value {
	k := x.tc.kindOf(t)
	if k == KIface {
		c := x.d.constant(sanitize(name), sInt)
		v := Value{K: KIface, T: t, S: c}
		if isErrorType(t) {
			x.sentinels = appendUniq(x.sentinels, c)
			st.assume(mkCmp(">", c, "0"))
			st.assume(mkCmp("<", c, x.alloc0))
			return v
		}
		x.assumeWF(st, v)
		return v
	}
	if k == KStruct || k == KTuple || k == KSlice {
		return x.symbolic(st, t, name)
	}
	c := x.d.constant(sanitize(name), x.tc.sortOf(t))
	v := Value{K: k, T: t, S: c}
	x.assumeWF(st, v)
	return v
}

func appendUniq(xs []string, s string) []string {
	for _, y := range xs {
		if y == s {
			return xs
		}
	}
	return append(xs, s)
}

func isErrorType(t types.Type) bool {
	n, ok := t.(*types.Named)
	return ok && n.Obj().Pkg() == nil && n.Obj().Name() == "error"
}

func (x *Exec) globalCell(g *ssa.Global) *Cell {
	if c, ok := x.globals[g]; ok {
		return c
	}
	c := x.newCell(g.Name(), pointee(g.Type()))
	c.glob = g
	x.globals[g] = c
	return c
}

// heap names in deterministic order
func heapNames(m map[string]string) []string {
	ks := make([]string, 0, len(m))
	for k := range m {
		ks = append(ks, k)
	}
	sort.Strings(ks)
	return ks
}


// coverBudget: vacuity (reachability) queries are satisfiability questions over the whole
// path condition; one per path multiplies the solver load without adding protection, so
// each label (a loop head, the returns) is covered on its first few paths only.
func (x *Exec) coverBudget(label string) bool {
	if x.coverN == nil {
		x.coverN = map[string]int{}
	}
	x.coverN[label]++
	// every path gets its query (which of them are feasible is not known here: the first ones
	// may be exactly the paths the precondition rules out); the solver stage asks them one at a
	// time per label and stops at the first satisfiable one
	return x.coverN[label] <= 12
}

package main

// Verification of one unit (function under contract, or lemma) and VC emission.

import (
	"fmt"
	"go/token"
	"go/types"
	"os"
	"path/filepath"
	"sort"
	"strings"

	"golang.org/x/tools/go/ssa"
)

type UnitResult struct {
	Unit        string        `json:"unit"`
	Func        string        `json:"func"`
	Props       []string      `json:"props"`
	Error       string        `json:"error,omitempty"`
	Obligations []*OblResult  `json:"obligations"`
	Notes       []string      `json:"abstracted,omitempty"`
	Unmodelled  []string      `json:"unmodelled_calls,omitempty"`
	Assumed     []string      `json:"assumed_contracts,omitempty"`
	Used        []string      `json:"callee_contracts,omitempty"`
	Inlined     []string      `json:"inlined,omitempty"`
	Paths       int           `json:"paths"`
	Instrs      int           `json:"instrs"`
	Axioms      int           `json:"axioms"`
	FrameChecked bool         `json:"frame_checked"`
	Pruned      int           `json:"pruned_paths"`
	Vacuous     []string      `json:"vacuous,omitempty"`
	Probes      []Probe       `json:"probes,omitempty"`
	Bounded     bool          `json:"bounded_run,omitempty"`
	PureCalls   []string      `json:"pure_calls,omitempty"`
}

type OblResult struct {
	Name    string  `json:"name"`
	Kind    string  `json:"kind"`
	Label   string  `json:"label,omitempty"`
	Pos     string  `json:"pos,omitempty"`
	Status  string  `json:"status"` // discharged | refuted | undischarged | cover-ok | cover-fail | trivial
	Solver  string  `json:"solver,omitempty"`
	Seconds float64 `json:"seconds"`
	File    string  `json:"file,omitempty"`
	Model   string  `json:"model,omitempty"`
	Bytes   int     `json:"smt_bytes,omitempty"`
	Cover   bool    `json:"cover,omitempty"`
	Output  string  `json:"output,omitempty"`
}

func (x *Exec) verifyFunc(fn *ssa.Function, c *FuncContract) (err error) {
	x.unitC = c
	defer func() {
		if r := recover(); r != nil {
			switch e := r.(type) {
			case *UnsupportedError:
				err = fmt.Errorf("unsupported: %s (at %s)", e.Msg, x.posString(x.curPos))
			case *SpecError:
				err = fmt.Errorf("contract-stale: %s", e.Msg)
			default:
				panic(r)
			}
		}
	}()
	x.unitFn = fn
	x.cutArr, x.cutSpec, x.cutDone = map[*ssa.Call][]workItem{}, map[*ssa.Call]*CutSpec{}, map[*ssa.Call]bool{}
	x.cutFired = map[string]bool{}
	st := &State{cells: map[*Cell]Value{}, heaps: map[string]string{}, wf: map[string]bool{}, held: map[string]string{}, ghost: map[string]Value{}}
	x.alloc0 = x.d.constant("alloc0", sInt)
	st.alloc = x.alloc0
	st.assume(mkCmp("<", "0", x.alloc0))
	var args []Value
	names := map[string]Value{}
	var sliceRids []string
	for i, p := range fn.Params {
		v := x.symbolic(st, p.Type(), "p."+p.Name())
		if i == 0 && fn.Signature.Recv() != nil && (v.K == KRef) {
			st.assume(mkNot(mkEq(v.S, "0"))) // ledger: receivers are non-nil
		}
		if v.K == KSlice {
			sliceRids = append(sliceRids, v.Rid)
		}
		args = append(args, v)
		names[p.Name()] = v
	}
	// a closure verified as a unit: its captured variables are arbitrary
	var binds []Value
	fvCells := map[string]*Cell{}
	for _, fv := range fn.FreeVars {
		pt := pointee(fv.Type())
		if pt == nil {
			unsupported("free variable %s of non-pointer type", fv.Name())
		}
		cell := x.newCell(fv.Name(), pt)
		cv := x.symbolic(st, pt, "fv."+fv.Name())
		st.cells[cell] = cv
		if cv.K == KSlice {
			sliceRids = append(sliceRids, cv.Rid)
		}
		binds = append(binds, Value{K: KPtr, T: fv.Type(), B: BCell, Cell: cell})
		names[fv.Name()] = cv
		fvCells[fv.Name()] = cell
	}
	// ledger 5: distinct slice parameters do not share a region (unless both nil)
	for i := 0; i < len(sliceRids); i++ {
		for j := i + 1; j < len(sliceRids); j++ {
			if !c.mayAlias() {
				st.assume(mkOr(mkNot(mkEq(sliceRids[i], sliceRids[j])), mkEq(sliceRids[i], "0")))
			}
		}
	}
	env := &SpecEnv{x: x, st: st, old: st, names: names, pkg: fn.Pkg.Pkg}
	for _, g := range x.db.Ghosts {
		if g.Pkg != "" && g.Pkg != fn.Pkg.Pkg.Path() {
			continue
		}
		sort, kind, gt := env.sortOfName(g.Type)
		st.ghost[g.Name] = Value{K: kind, T: gt, Sort: sort, S: x.d.fresh("ghost."+g.Name, sort)}
		x.ghostNames = append(x.ghostNames, g.Name)
	}
	for _, l := range c.Lets {
		st.ghost[l.Name] = env.eval(l.E)
	}
	for _, r := range c.Requires {
		x.assumeLocked(st, env, r.E)
		st.assume(env.evalBool(r.E))
	}
	// callback unit: pre() in an iteration invariant denotes the state at the call that
	// started the iteration: an arbitrary earlier state P (own heaps, own captured values)
	var preSt *State
	var preNames map[string]Value
	if len(c.IterInv) > 0 {
		preNames = map[string]Value{}
		for k, v := range names {
			preNames[k] = v
		}
		pcells := map[*Cell]Value{}
		for n, cell := range fvCells {
			pv := x.symbolic(st, cell.T, "P."+n)
			pcells[cell] = pv
			preNames[n] = pv
		}
		preSt = st.clone()
		preSt.heaps = map[string]string{}
		preSt.heapPfx = "$P"
		for cell, pv := range pcells {
			preSt.cells[cell] = pv
		}
		env.pre, env.preNames = preSt, preNames
	}
	// iteration invariants of a callback hold before every invocation.  Each sits behind
	// a fresh Boolean guard so that the preservation proof of one invariant can leave the
	// others (deep quantified facts it does not need) switched off: a guard occurs only
	// as the antecedent of its invariant, so asserting it false is the same as dropping
	// that hypothesis
	invGuards := map[string]string{}
	firstObl := len(x.obls)
	for _, r := range c.IterInv {
		g := x.d.fresh("inv."+sanitize(r.Label), sBool)
		invGuards[r.Label] = g
		st.assume(mkImp(g, env.evalBool(r.E)))
	}
	// per-argument facts of a callback (iterpost): assumed for an arbitrary earlier argument
	// tuple q (they were established by that invocation), to be shown again at the exit
	// (stability), and shown for this invocation's own arguments (establishment)
	var shadow map[string]Value
	if len(c.IterPost) > 0 {
		shadow = map[string]Value{}
		for k, v := range names {
			shadow[k] = v
		}
		for _, p := range fn.Params {
			shadow[p.Name()] = x.symbolic(st, p.Type(), "q."+p.Name())
		}
		senv := &SpecEnv{x: x, st: st, old: st, names: shadow, pkg: fn.Pkg.Pkg, pre: env.pre, preNames: env.preNames}
		for _, r := range c.IterPost {
			st.assume(senv.evalBool(r.E))
		}
	}
	if len(invGuards) > 0 {
		defer func() {
			for _, o := range x.obls[firstObl:] {
				if o.Hyps == nil {
					continue
				}
				on := map[string]bool{}
				sliced := false
				if o.Kind == "iter-keep" {
					for _, r := range c.IterInv {
						if r.Label == o.Label && r.Needs != nil {
							sliced = true
							on[r.Label] = true
							for _, n := range r.Needs {
								on[n] = true
							}
						}
					}
				}
				hy := append([]string(nil), o.Hyps...)
				for _, r := range c.IterInv {
					if !sliced || on[r.Label] {
						hy = append(hy, invGuards[r.Label])
					} else {
						hy = append(hy, mkNot(invGuards[r.Label]))
					}
				}
				o.Hyps = hy
			}
		}()
	}
	if x.boundedRun {
		for _, b := range c.Bounded {
			st.assume(env.evalBool(b.E))
		}
	}
	x.obls = append(x.obls, &Obligation{Name: x.unit + "#cover:requires", Unit: x.unit, Kind: "cover", Label: "requires", Hyps: st.pcList(), Goal: tTrue, Cover: true})
	x.entry = st.clone()
	for i, p := range fn.Params {
		x.probeValue(st.clone(), p.Name(), args[i], 0)
	}
	for _, l := range c.Lets {
		if v := st.ghost[l.Name]; v.T == nil && v.K == KOpaque {
			continue // a value of a declared sort (e.g. a byte sequence): nothing to probe
		}
		x.probeValue(st.clone(), "let."+l.Name, st.ghost[l.Name], 2)
	}
	for _, g := range x.ghostNames {
		x.probeValue(st.clone(), "ghost."+g, st.ghost[g], 2)
	}
	run := st.clone()
	outs := x.runFunc(run, fn, args, binds, nil, c, "", fn.Pos())
	if x.bounded == 0 {
		for _, cs := range c.Cuts {
			if !x.cutFired[cs.Callee] && x.firstCallOf(fn, cs.Callee) == nil {
				specFail("cut %s: the function has no call of that callee", cs.Callee)
			}
		}
	}
	nret := 0
	for _, o := range outs {
		if o.st.infeasible() {
			continue
		}
		if o.panicked {
			if !c.MayPanic {
				x.oblige(o.st, "panic", "explicit", tFalse, fn.Pos())
			}
			continue
		}
		nret++
		// auto-frame lemmas: proved from the store chain, then available to the posts
		for i, lem := range x.autoFrame(o.st) {
			x.oblige(o.st, "auto-frame", fmt.Sprintf("%d", i+1), lem, fn.Pos())
			o.st.assume(lem)
		}
		penv := &SpecEnv{x: x, st: o.st, old: x.entry, names: names, pkg: fn.Pkg.Pkg, results: o.results, sig: fn.Signature, witFr: o.fr}
		if len(fvCells) > 0 {
			// captured variables denote their current values in the post-state, their entry values under old()
			pn := map[string]Value{}
			for k, v := range names {
				pn[k] = v
			}
			for n, cell := range fvCells {
				if cv, ok := o.st.cells[cell]; ok {
					pn[n] = cv
				}
			}
			penv.names, penv.oldNames = pn, names
			penv.pre, penv.preNames = preSt, preNames
		}
		for _, e := range c.Ensures {
			if strings.HasPrefix(e.Label, "assumed-") {
				// clause-level trust: used at call sites, not checked here (listed in the evidence)
				x.assumed[x.unit+" clause "+e.Label] = true
				continue
			}
			isB := strings.HasPrefix(e.Label, "bounded-") || c.BoundedOnly
			if x.boundedRun {
				// bounded stand-in run: only the bounded clauses, under the
				// bounding assumptions made at entry (reported as bounded)
				if isB {
					x.oblige(o.st, "bounded-post", e.Label, penv.evalBool(e.E), fn.Pos())
				}
				continue
			}
			if isB {
				continue // checked in the bounded run only
			}
			x.oblige(o.st, "post", e.Label, penv.evalBool(e.E), fn.Pos())
		}
		for _, e := range c.IterInv {
			if !x.boundedRun {
				x.oblige(o.st, "iter-keep", e.Label, penv.evalBool(e.E), fn.Pos())
			}
		}
		if len(c.IterPost) > 0 && !x.boundedRun {
			// own arguments (entry values) with the captured variables as they are now
			own := map[string]Value{}
			for k, v := range penv.names {
				own[k] = v
			}
			for _, p := range fn.Params {
				own[p.Name()] = names[p.Name()]
			}
			oenv := *penv
			oenv.names = own
			sh := map[string]Value{}
			for k, v := range penv.names {
				sh[k] = v
			}
			for _, p := range fn.Params {
				sh[p.Name()] = shadow[p.Name()]
			}
			senv := *penv
			senv.names = sh
			for _, e := range c.IterPost {
				x.oblige(o.st, "iterpost-establish", e.Label, oenv.evalBool(e.E), fn.Pos())
				x.oblige(o.st, "iterpost-stable", e.Label, senv.evalBool(e.E), fn.Pos())
			}
		}
		if c.HasAssign {
			x.frameObligations(o.st, penv, c, fn)
			if fn.Parent() != nil && len(fvCells) > 0 {
				// a callback's frame composes over invocations only if its targets stay
				// put or move to fresh objects
				oe := penv.with(x.entry)
				oe.names = names
				for _, a := range c.Assigns {
					switch a.Kind {
					case "elems", "region":
						nv, ov := penv.eval(a.E), oe.eval(a.E)
						if nv.K == KSlice && ov.K == KSlice {
							x.oblige(o.st, "iter-stable", a.Src, mkOr(mkEq(nv.Rid, ov.Rid), mkCmp(">=", nv.Rid, "alloc0"), mkEq(nv.Rid, "0")), fn.Pos())
						}
					case "field":
						nr, _ := x.objectOf(penv.eval(a.E))
						or, _ := x.objectOf(oe.eval(a.E))
						x.oblige(o.st, "iter-stable", a.Src, mkOr(mkEq(nr, or), mkCmp(">=", nr, "alloc0")), fn.Pos())
					}
				}
			}
		}
		if x.coverBudget("return") {
			x.obls = append(x.obls, &Obligation{Name: fmt.Sprintf("%s#cover:return@%d", x.unit, nret), Unit: x.unit, Kind: "cover", Label: "return", Hyps: o.st.pcList(), Goal: tTrue, Cover: true})
		}
	}
	return nil
}

func (c *FuncContract) mayAlias() bool {
	for _, n := range c.Notes {
		if n == "mayalias" {
			return true
		}
	}
	return false
}

func (x *Exec) initHeapTerm(name string) string { return sanitize(name) + "@0" }

// frameObligations: every heap modified on this path must be covered by assigns.
func (x *Exec) frameObligations(st *State, env *SpecEnv, c *FuncContract, fn *ssa.Function) {
	oldEnv := env.with(x.entry)
	oldEnv.entry = true
	for _, a := range c.Assigns {
		if a.Kind == "all" {
			return
		}
	}
	for _, g := range x.ghostNames {
		allowed := false
		for _, a := range c.Assigns {
			if a.Kind == "ghost" && a.Heap == g {
				allowed = true
			}
		}
		if !allowed && st.ghost[g].S != x.entry.ghost[g].S {
			x.oblige(st, "frame", "ghost."+g, mkEq(st.ghost[g].S, x.entry.ghost[g].S), fn.Pos())
		}
	}
	for _, name := range heapNames(st.heaps) {
		final := st.heaps[name]
		init := x.initHeapTerm(name)
		if final == init {
			continue
		}
		if strings.HasPrefix(name, "IT$") {
			continue // iterator ghosts
		}
		fp := x.footprintFor(oldEnv, c.Assigns, name)
		if fp != nil && fp.whole {
			continue
		}
		goal := x.frameFormula(name, final, init, fp, "alloc0")
		x.oblige(st, "frame", name, goal, fn.Pos())
	}
}

// ---------------------------------------------------------------------------
// VC emission

func (x *Exec) globalAxioms() []string {
	var ax []string
	ax = append(ax, x.axioms...)
	// (typing facts of the entry heaps are added per VC, only for heaps the VC mentions)
	if len(x.sentinels) > 1 {
		ax = append(ax, "(distinct "+strings.Join(x.sentinels, " ")+")")
	}
	// string literals: distinct, known lengths
	var lits []string
	keys := make([]string, 0, len(x.strs))
	for k := range x.strs {
		keys = append(keys, k)
	}
	sort.Strings(keys)
	for _, k := range keys {
		c := x.strs[k]
		lits = append(lits, c)
		ax = append(ax, mkEq("(strlen "+c+")", intLit64(int64(len(k)))))
	}
	if len(lits) > 1 {
		ax = append(ax, "(distinct "+strings.Join(lits, " ")+")")
	}
	return ax
}

// dbAxioms evaluates the contract-file axioms that mention spec functions in use.
func (x *Exec) dbAxioms(pkg *types.Package) []string {
	var out []string
	st := &State{cells: map[*Cell]Value{}, heaps: map[string]string{}, wf: map[string]bool{}, held: map[string]string{}, ghost: map[string]Value{}, alloc: "alloc0"}
	for round := 0; round < 3; round++ {
		out = out[:0]
		var visible []Clause
		// A lemma with the label of an axiom is the proof of that axiom: function units go on
		// using the axiom as written (their VCs do not change), the lemma's own proof may use
		// only the axioms that are not proved by it or by a later lemma, and the earlier lemmas.
		later := map[string]bool{}
		if x.lemmaCut != 0 {
			for _, pc := range x.pkgContracts() {
				for _, lm := range pc.LemmaList {
					if lm.Ord >= x.lemmaCut {
						later[lm.Label] = true
					}
				}
			}
		}
		for _, pc := range x.pkgContracts() {
			for _, a := range pc.Axioms {
				if !later[a.Label] {
					visible = append(visible, a)
				}
			}
			if x.lemmaCut != 0 {
				for _, lm := range pc.LemmaList {
					if lm.Ord < x.lemmaCut {
						visible = append(visible, Clause{Label: "lemma " + lm.Label, Src: lm.Src, E: lm.Q})
					}
				}
			}
		}
		for _, a := range visible {
			used := specCalls(a.E, nil)
			relevant := false
			for _, u := range used {
				if x.d.seen["spec."+u] {
					relevant = true
				}
			}
			if !relevant && x.lemmaCut == 0 {
				continue // (a lemma's proof sees every axiom of its package, typing facts included)
			}
			env := &SpecEnv{x: x, st: st, old: st, names: map[string]Value{}, pkg: pkg}
			func() {
				defer func() {
					if r := recover(); r != nil {
						if se, ok := r.(*SpecError); ok {
							panic(&SpecError{"axiom " + a.Label + ": " + se.Msg})
						}
						panic(r)
					}
				}()
				out = append(out, env.evalBool(a.E))
			}()
		}
	}
	return out
}

func specCalls(e SExpr, acc []string) []string {
	switch n := e.(type) {
	case *SCall:
		acc = append(acc, strings.TrimPrefix(n.Fn, "."))
		for _, a := range n.Args {
			acc = specCalls(a, acc)
		}
	case *SBin:
		acc = specCalls(n.X, acc)
		acc = specCalls(n.Y, acc)
	case *SUnary:
		acc = specCalls(n.X, acc)
	case *SQuant:
		acc = specCalls(n.Body, acc)
	case *SIndex:
		acc = specCalls(n.X, acc)
		acc = specCalls(n.I, acc)
	case *SSel:
		acc = specCalls(n.X, acc)
	case *SSlice:
		acc = specCalls(n.X, acc)
		if n.Lo != nil {
			acc = specCalls(n.Lo, acc)
		}
		if n.Hi != nil {
			acc = specCalls(n.Hi, acc)
		}
	}
	return acc
}

func (x *Exec) writeVCs(dir string, pkg *types.Package) ([]string, error) {
	if err := os.MkdirAll(dir, 0o755); err != nil {
		return nil, err
	}
	axioms := append(x.dbAxioms(pkg), x.globalAxioms()...)
	var sb strings.Builder
	sb.WriteString(prelude)
	sb.WriteString(wrapMarkBegin + wrapDefs("A") + wrapMarkEnd)
	for _, l := range x.d.order {
		sb.WriteString(l)
		sb.WriteByte('\n')
	}
	for _, a := range axioms {
		sb.WriteString("(assert " + a + ")\n")
	}
	header := sb.String()
	var files []string
	memo := map[string]string{}
	ann := func(t string) string {
		if os.Getenv("GOVC_NOPAT") != "" {
			return t
		}
		return annotateQuantifiers(t, memo)
	}
	for i, o := range x.obls {
		if o.Goal == tTrue && !o.Cover {
			files = append(files, "")
			continue
		}
		var b strings.Builder
		b.WriteString("; " + o.Name + "\n")
		b.WriteString(header)
		// typing facts of the entry heaps this VC speaks about
		for _, la := range x.lateAxioms {
			if !x.d.seen[la.heap] {
				continue
			}
			used := strings.Contains(o.Goal, la.heap)
			for _, h := range o.Hyps {
				if used {
					break
				}
				used = strings.Contains(h, la.heap)
			}
			if used {
				b.WriteString("(assert " + la.term + ") ; wf\n")
			}
		}
		for _, h := range o.Hyps {
			b.WriteString("(assert " + ann(h) + ")\n")
		}
		if !o.Cover {
			b.WriteString("(assert (not " + ann(o.Goal) + "))\n")
		}
		b.WriteString("(check-sat)\n")
		if !o.Cover {
			if len(x.probes) > 0 {
				b.WriteString("(get-value (")
				for _, p := range x.probes {
					b.WriteString(p.Term + " ")
				}
				b.WriteString("))\n")
			}
		}
		f := filepath.Join(dir, fmt.Sprintf("%04d.smt2", i))
		if err := os.WriteFile(f, []byte(b.String()), 0o644); err != nil {
			return nil, err
		}
		files = append(files, f)
	}
	return files, nil
}

var _ = token.NoPos

// batchKinds: automatic safety obligations.  The same program point is checked once per
// path that reaches it; on a tree where the property holds all of them are valid, so they
// are first asked together: one query "some path violates the check at this point".
var batchKinds = map[string]bool{"nil": true, "idx": true, "slice": true, "div0": true, "mapnil": true, "makeneg": true, "assertT": true, "auto-frame": true, "pre": true}

type vcBatch struct {
	file    string
	members []int // indexes into x.obls
}

// writeBatches groups the safety obligations of one program point (same kind and label)
// into combined queries of at most batchMax members.  A batch that is unsatisfiable
// discharges all its members; any other answer leaves them to their individual queries.
func (x *Exec) writeBatches(dir string, files []string, pkg *types.Package) ([]vcBatch, error) {
	const batchMax = 12
	axioms := append(x.dbAxioms(pkg), x.globalAxioms()...)
	var sb strings.Builder
	sb.WriteString(prelude)
	sb.WriteString(wrapMarkBegin + wrapDefs("A") + wrapMarkEnd)
	for _, l := range x.d.order {
		sb.WriteString(l)
		sb.WriteByte('\n')
	}
	for _, a := range axioms {
		sb.WriteString("(assert " + a + ")\n")
	}
	header := sb.String()
	memo := map[string]string{}
	ann := func(t string) string {
		if os.Getenv("GOVC_NOPAT") != "" {
			return t
		}
		return annotateQuantifiers(t, memo)
	}
	groups := map[string][]int{}
	var order []string
	for i, o := range x.obls {
		if o.Cover || !batchKinds[o.Kind] || files[i] == "" {
			continue
		}
		k := o.Kind + ":" + o.Label
		if _, ok := groups[k]; !ok {
			order = append(order, k)
		}
		groups[k] = append(groups[k], i)
	}
	var out []vcBatch
	n := 0
	for _, k := range order {
		g := groups[k]
		for len(g) > 0 {
			m := g
			if len(m) > batchMax {
				m = g[:batchMax]
			}
			g = g[len(m):]
			if len(m) < 2 {
				continue
			}
			var b strings.Builder
			b.WriteString("; batch " + x.unit + "#" + k + "\n")
			b.WriteString(header)
			for _, la := range x.lateAxioms {
				if !x.d.seen[la.heap] {
					continue
				}
				used := false
				for _, i := range m {
					o := x.obls[i]
					if strings.Contains(o.Goal, la.heap) {
						used = true
					}
					for _, h := range o.Hyps {
						if used {
							break
						}
						used = strings.Contains(h, la.heap)
					}
					if used {
						break
					}
				}
				if used {
					b.WriteString("(assert " + la.term + ") ; wf\n")
				}
			}
			// hypotheses common to all members stay top-level assertions
			common := map[string]int{}
			for _, i := range m {
				seen := map[string]bool{}
				for _, h := range x.obls[i].Hyps {
					if !seen[h] {
						seen[h] = true
						common[h]++
					}
				}
			}
			done := map[string]bool{}
			for _, h := range x.obls[m[0]].Hyps {
				if common[h] == len(m) && !done[h] {
					done[h] = true
					b.WriteString("(assert " + ann(h) + ")\n")
				}
			}
			b.WriteString("(assert (or")
			for _, i := range m {
				o := x.obls[i]
				b.WriteString("\n (and")
				for _, h := range o.Hyps {
					if common[h] != len(m) {
						b.WriteString(" " + ann(h))
					}
				}
				b.WriteString(" (not " + ann(o.Goal) + "))")
			}
			b.WriteString("))\n(check-sat)\n")
			f := filepath.Join(dir, fmt.Sprintf("batch%04d.smt2", n))
			n++
			if err := os.WriteFile(f, []byte(b.String()), 0o644); err != nil {
				return nil, err
			}
			out = append(out, vcBatch{file: f, members: append([]int(nil), m...)})
		}
	}
	return out, nil
}

// Probe is a term whose model value the replay needs (an input of the unit).
type Probe struct {
	Label string `json:"label"`
	Term  string `json:"term"`
}

const probeElems = 40

// probeValue records the terms describing an input value: scalars, slice
// extents, the first bytes of byte slices, and (two levels deep) the fields
// of objects reachable from it — all read in the entry state.
func (x *Exec) probeValue(st *State, label string, v Value, depth int) {
	add := func(l, t string) {
		if t == "" {
			return
		}
		if _, ok := isIntLit(t); ok {
			return
		}
		x.probes = append(x.probes, Probe{Label: l, Term: t})
	}
	switch v.K {
	case KBool, KInt, KBV8, KReal:
		add(label, v.S)
	case KIface, KMap, KChan:
		add(label+".ref", v.S)
	case KOpaque:
		if s := x.tc.sortOf(v.T); s == sInt || s == sBool {
			add(label, v.S)
		}
	case KStr:
		add(label+".len", "(strlen "+v.S+")")
	case KSlice:
		add(label+".nil", mkEq(v.Rid, "0"))
		add(label+".len", v.Len)
		add(label+".cap", v.Cap)
		et := v.T.Underlying().(*types.Slice).Elem()
		if x.tc.kindOf(et) == KBV8 {
			arr := x.regionTerm(st, v.Rid, et)
			for i := 0; i < probeElems; i++ {
				add(fmt.Sprintf("%s[%d]", label, i), mkSelect(arr, mkAdd(v.Off, intLit64(int64(i)))))
			}
		}
	case KStruct:
		stt, ok := v.T.Underlying().(*types.Struct)
		if !ok {
			return
		}
		for i, f := range v.Fields {
			x.probeValue(st, label+"."+stt.Field(i).Name(), f, depth)
		}
	case KRef:
		add(label+".ref", v.S)
		et := pointee(v.T)
		if et == nil {
			return
		}
		if _, isOpaque := x.tc.opaqueSort(et); isOpaque {
			if n, ok := et.(*types.Named); ok && qualName(n) == "math/big.Int" {
				add(label+".val", x.bigVal(st, v.S))
			}
			return
		}
		if depth >= 2 || !x.isStructLike(et) {
			return
		}
		stt := et.Underlying().(*types.Struct)
		for i := 0; i < stt.NumFields(); i++ {
			if x.tc.kindOf(stt.Field(i).Type()) == KStruct && depth >= 1 {
				continue
			}
			x.probeValue(st, label+"."+stt.Field(i).Name(), x.loadField(st, v.S, et, i), depth+1)
		}
	}
}


// proveLemma generates the obligations of one lemma: the statement for arbitrary values of its
// variables, or - by induction on one integer variable with the others fixed - base case and
// step.  Only the axioms and the lemmas stated before it are available.
func (x *Exec) proveLemma(lm *Lemma, pkg *types.Package) {
	x.lemmaCut = lm.Ord
	x.pkgPath = lm.Pkg
	x.alloc0 = x.d.constant("alloc0", sInt)
	st := &State{cells: map[*Cell]Value{}, heaps: map[string]string{}, wf: map[string]bool{}, held: map[string]string{}, ghost: map[string]Value{}, alloc: "alloc0"}
	base := &SpecEnv{x: x, st: st, old: st, names: map[string]Value{}, pkg: pkg}
	// fresh constants for the variables
	consts := map[string]Value{}
	for _, v := range lm.Q.Vars {
		sort, kind, gt := base.sortOfName(v.Type)
		c := x.d.fresh("lm."+v.Name, sort)
		var val Value
		if gt != nil {
			val = x.tc.unpack(nil, gt, c)
			val.T = gt
		} else {
			val = Value{K: kind, S: c}
		}
		consts[v.Name] = val
	}
	bodyWith := func(over map[string]Value) string {
		env := base
		for _, v := range lm.Q.Vars {
			val := consts[v.Name]
			if o, ok := over[v.Name]; ok {
				val = o
			}
			env = env.bind(v.Name, val)
		}
		return env.evalBool(lm.Q.Body)
	}
	add := func(label, goal string, hyps []string) {
		x.obls = append(x.obls, &Obligation{Name: x.unit + "#lemma:" + label, Unit: x.unit, Kind: "lemma", Label: label, Goal: goal, Hyps: hyps})
	}
	if lm.Var == "" {
		add(lm.Label, bodyWith(nil), nil)
		return
	}
	env := base
	for _, v := range lm.Q.Vars {
		env = env.bind(v.Name, consts[v.Name])
	}
	from := x.toInt(st, env.eval(lm.From))
	add(lm.Label+":base", bodyWith(map[string]Value{lm.Var: intV(from)}), nil)
	n := x.d.fresh("lm.n", sInt)
	if !lm.Down {
		ih := bodyWith(map[string]Value{lm.Var: intV(n)})
		add(lm.Label+":step", bodyWith(map[string]Value{lm.Var: intV(mkAdd(n, "1"))}), []string{mkCmp(">=", n, from), ih})
	} else {
		ih := bodyWith(map[string]Value{lm.Var: intV(mkAdd(n, "1"))})
		add(lm.Label+":step", bodyWith(map[string]Value{lm.Var: intV(n)}), []string{mkCmp("<", n, from), ih})
	}
}
